#!/bin/sh
# usage: seedtry.sh <ID> <X> [checks]   confirm a sub-agent's change (seedeval.sh) and run the quick check(s) against it
V=$(cd "$(dirname "$0")" && pwd); ID=$1; X=$2; CH=${3:-$ID}
echo "=== $ID-$X"
"$V/seedeval.sh" $ID $X 2>&1 | grep -E '^(demo|suite|PATCH)'
MUT_DIFF_LINES=0 MUT_TAIL=3 "$V/mutate.sh" /tmp/seed/$ID/$X/patch.diff -- $CH 2>&1 | grep -E 'VIOLATION|violations=|exit=|INCONCLUSIVE' | cut -c1-260 | head -${SEEDTRY_LINES:-4}
