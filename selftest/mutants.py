#!/usr/bin/env python3
"""Sensitivity self-test (DESIGN §6.2 / Appendix B): small source mutants, each applied to a scratch
copy of /repo (never /repo itself). A mutant is VALID when the copy still builds and the repository's
own suite passes; a valid mutant must be caught (VIOLATION) by the quick tier of the named check.

usage: mutants.py [name-substring ...]      results are printed and written to selftest/results.txt
"""
import os, shutil, subprocess, sys, tempfile

V = os.path.dirname(os.path.dirname(os.path.abspath(__file__)))
ENV = dict(os.environ, GOFLAGS="-mod=mod", GOPROXY="off", GOTOOLCHAIN="auto")

# (name, checks, file, old, new)
M = [
 ("C01 $regex exempt", "C01", "src/operators.go", 'coreOperators.Set("$regex", Redactable)', 'coreOperators.Set("$regex", Exempt)'),
 ("C01 WRITE dropped from the line gate", "C01", "src/anonymizer.go", 'c == "COMMAND" || c == "QUERY" || c == "WRITE" || msg == "Slow query"', 'c == "COMMAND" || c == "QUERY" || msg == "Slow query"'),
 ("C01 originatingCommand skipped", "C01", "src/anonymizer.go", 'originatingCommand, ocOk := attr.Get("originatingCommand")', 'originatingCommand, ocOk := attr.Get("originatingCommand_")'),
 ("C01 -n wired to -b", "C01", "src/main.go", "SetRedactNumbers(redactNumbers)", "SetRedactNumbers(redactBooleans)"),
 ("C01 '$' test widened to contains", "C01", "src/anonymizer.go", "if str, ok := item.(string); ok && len(str) > 0 && str[0] == '$' {\n\t\t\t\t\tisOp := false", "if str, ok := item.(string); ok && strings.Contains(str, \"$\") {\n\t\t\t\t\tisOp := false"),
 ("C01 q dispatch dropped", "C01", "src/anonymizer.go", 'if update, ok := cmd.Get("q"); ok {', 'if update, ok := cmd.Get("q_"); ok {'),
 ("C02 placeholder carries the length", "C02", "src/anonymizer.go", "\t\treturn redactString(v.(string), redactedString)", "\t\treturn redactString(v.(string), redactedString+strings.Repeat(\"*\", len(v.(string))%3))"),
 ("C02 placeholder by first letter", "C02", "src/anonymizer.go", "\t\treturn redactString(v.(string), redactedString)", "\t\tif strings.HasPrefix(str, \"A\") {\n\t\t\treturn redactString(str, redactedString+\"A\")\n\t\t}\n\t\treturn redactString(v.(string), redactedString)"),
 ("C03 null dropped again", "C03", "src/anonymizer.go", "\t\t\t\t// a null value carries no data but the key must not disappear\n\t\t\t\tnewObj.Set(redactedKey, v)", "\t\t\t\t_ = redactedKey"),
 ("C03 last element of long arrays dropped", "C03", "src/anonymizer.go", "func redactArrayValues(arr []any, redactFieldNames bool, isSearchStage bool, isSelectivelyRedactable bool, keyPath []string) []any {\n", "func redactArrayValues(arr []any, redactFieldNames bool, isSearchStage bool, isSelectivelyRedactable bool, keyPath []string) []any {\n\tif len(arr) > 3 {\n\t\tarr = arr[:len(arr)-1]\n\t}\n"),
 ("C04 UseNumber removed", "C04", "src/helpers.go", "\tdec.UseNumber()\n", ""),
 ("C04 $limit redactable", "C04", "src/operators.go", 'm.Set("$limit", Exempt)', 'm.Set("$limit", Redactable)'),
 ("C04 search index redactable", "C04", "src/operators.go", 'search.Set("index", Exempt)', 'search.Set("index", Redactable)'),
 ("C05 ObjectId placeholder 23 digits", "C05", "src/constants.go", '"000000000000000000000000"', '"00000000000000000000000"'),
 ("C05 date placeholder not ISO", "C05", "src/constants.go", '"1970-01-01T00:00:00.000Z"', '"1970-01-01 00:00:00"'),
 ("C05 e-mail placeholder not e-mail shaped", "C05,C19", "src/anonymizer.go", '"redacted@redacted.com"', '"redacted_at_redacted.com"'),
 ("C06 field-name mode remembered across lines", "C06,C15", "src/anonymizer.go", "\t\tshouldEagerRedact := false\n", "\t\tshouldEagerRedact := stickyEager\n\t\tdefer func() { stickyEager = shouldEagerRedact }()\n"),
 ("C06 raw line emitted when parsing fails", "C06", "src/reader.go", "\t\tredacted, err := RedactMongoLog(line)\n\t\tif err != nil {\n\t\t\taddOneToBar(bar)\n\t\t\tcontinue\n\t\t}", "\t\tredacted, err := RedactMongoLog(line)\n\t\tif err != nil {\n\t\t\taddOneToBar(bar)\n\t\t\tif strings.HasPrefix(line, \"{\") {\n\t\t\t\tfmt.Fprintln(outWriter, line)\n\t\t\t}\n\t\t\tcontinue\n\t\t}"),
 ("C07 unchecked assertion on $date", "C07", "src/anonymizer.go", "\tcase \"$date\":\n\t\tif s, ok := v.(string); ok {\n\t\t\treturn redactString(s, RedactedISODate)\n\t\t}", "\tcase \"$date\":\n\t\treturn redactString(v.(string), RedactedISODate)"),
 ("C08 scanner error swallowed", "C08", "src/reader.go", "\tif err := scanner.Err(); err != nil {\n\t\treturn err\n\t}", "\t_ = scanner.Err()"),
 ("C08 write error ignored again", "C08", "src/reader.go", "\t\tif _, err := fmt.Fprintln(outWriter, string(out)); err != nil {\n\t\t\treturn fmt.Errorf(\"failed to write output: %w\", err)\n\t\t}", "\t\tfmt.Fprintln(outWriter, string(out))"),
 ("C09 decrypt prints on error too", "C09", "src/main.go", "\t\t\tif err != nil {\n\t\t\t\tfmt.Fprintf(os.Stderr, \"Decryption failed: %v\\n\", err)\n\t\t\t\tos.Exit(1)\n\t\t\t}", "\t\t\tif err != nil {\n\t\t\t\tfmt.Fprintf(os.Stderr, \"Decryption failed: %v\\n\", err)\n\t\t\t}"),
 ("C10 numbers encrypted as strings", "C10", "src/anonymizer.go", "\t\tif redactNumbers {\n\t\t\treturn RedactedNumber\n\t\t}", "\t\tif redactNumbers {\n\t\t\tif shouldEncrypt {\n\t\t\t\treturn redactString(fmt.Sprint(v), \"0\")\n\t\t\t}\n\t\t\treturn RedactedNumber\n\t\t}"),
 ("C10 plaintext fallback on encryption error", "C10", "src/anonymizer.go", "\t\t\t// never fall back to the original value: if it cannot be encrypted it is redacted\n\t\t\treturn nonEncryptedValue", "\t\t\treturn s"),
 ("C11 key length check removed from read", "C11", "src/encryption.go", "\tif len(key) != 64 {\n\t\treturn nil, fmt.Errorf(\"invalid key length: got %d, want 64\", len(key))\n\t}\n\treturn key, nil", "\treturn key, nil"),
 ("C11 key regenerated on every run", "C11", "src/main.go", "\t\t\t\tkeyfileExists := FileExists(encryptionKeyFile)", "\t\t\t\tkeyfileExists := FileExists(encryptionKeyFile) && false"),
 ("C11 world-readable key file", "C11", "src/encryption.go", "0600)", "0644)"),
 ("C12 $db not pseudonymised", "C12", "src/anonymizer.go", '"delete", "$db", "count"', '"delete", "count"'),
 ("C12 whole-string hashing of attr.ns", "C12,C13", "src/anonymizer.go", "\t\t\t\tredactedNs := HashName(nsStr)", "\t\t\t\tredactedNs := HashName(strings.ReplaceAll(nsStr, \".\", \"\\u2024\"))"),
 ("C12 $lookup.from redactable", "C12", "src/operators.go", 'lookup.Set("from", Namespace)', 'lookup.Set("from", Redactable)'),
 ("C13 TrimLeft dropped", "C13", "src/helpers.go", 'trimmed := strings.TrimLeft(field, "$")', "trimmed := field"),
 ("C13 pseudonym depends on the process", "C13", "src/helpers.go", "h := sha256.Sum256([]byte(part))", "h := sha256.Sum256([]byte(part + fmt.Sprint(os.Getpid())))"),
 ("C13 side table read back", "C13", "src/helpers.go", "\t\thashed := fmt.Sprintf(\"%s_%x\", redactedString, h[:8])\n", "\t\thashed := fmt.Sprintf(\"%s_%x\", redactedString, h[:8])\n\t\tif prev, ok := RedactedFieldMapping[part]; ok {\n\t\t\thashed = prev\n\t\t}\n"),
 ("C14 only the last key is matched", "C14", "src/anonymizer.go", "\tfor _, key := range *keyPath {\n\t\tif pattern.MatchString(key) {", "\tfor i, key := range *keyPath {\n\t\tif i == len(*keyPath)-1 && pattern.MatchString(key) {"),
 ("C14 value is matched too", "C14", "src/anonymizer.go", "\t\t!reMatchesAnyKeyInPath(&keyPath, redactedFieldsRegexp)\n", "\t\t!reMatchesAnyKeyInPath(&keyPath, redactedFieldsRegexp) && !redactedFieldsRegexp.MatchString(fmt.Sprint(v))\n"),
 ("C15 prefix test replaced by containment", "C15", "src/anonymizer.go", "if strings.HasPrefix(ns, path) {", "if strings.Contains(ns, path) {"),
 ("C15 sort keys skipped in field-name mode", "C15", "src/anonymizer.go", 'cmd.Set("sort", redactQueryValues(sortMap, shouldEagerRedact, false, nil, []string{}))', 'cmd.Set("sort", redactQueryValues(sortMap, false, false, nil, []string{}))'),
 ("C16 hosts in reverse order", "C16", "src/atlas.go", "\tfor _, host := range hosts {\n", "\tslices.Reverse(hosts)\n\tfor _, host := range hosts {\n"),
 ("C16 port kept", "C16", "src/atlas.go", "\t\thosts = append(hosts, host)\n", "\t\thosts = append(hosts, hostPort)\n\t\t_ = host\n"),
 ("C16 start and end swapped", "C16", "src/atlas.go", "c.BaseURL, projectID, host, endDate, startDate,", "c.BaseURL, projectID, host, startDate, endDate,"),
 ("C16 output index off by one", "C16", "src/main.go", 'outPath := fmt.Sprintf("%s.%d", outputFile, i)', 'outPath := fmt.Sprintf("%s.%d", outputFile, i+1)'),
 ("C17 only the first file deleted", "C17", "src/atlas.go", "\tfor _, logFile := range logFiles {\n\t\tif err := os.Remove(logFile); err != nil {", "\tfor i, logFile := range logFiles {\n\t\tif i > 0 {\n\t\t\tbreak\n\t\t}\n\t\tif err := os.Remove(logFile); err != nil {"),
 ("C18 start/end pairing check dropped", "C18", "src/main.go", "if (atlasLogStartDate != 0 && atlasLogEndDate == 0) || (atlasLogStartDate == 0 && atlasLogEndDate != 0) {", "if false {"),
 ("C18 --encrypt allowed with stdin", "C18", "src/main.go", 'if encrypt && (stdinHasData || outputFile == "") && !atlasParamsSet {', 'if encrypt && outputFile == "" && !atlasParamsSet {'),
 ("C19 serializer escapes backslash twice", "C19,C04", "src/helpers.go", "\t\tvalBytes, err := json.Marshal(v)\n\t\tif err != nil {\n\t\t\treturn err\n\t\t}\n\t\tbuf.Write(valBytes)", "\t\tvalBytes, err := json.Marshal(v)\n\t\tif err != nil {\n\t\t\treturn err\n\t\t}\n\t\tbuf.Write(bytes.ReplaceAll(valBytes, []byte(`\\\\`), []byte(`\\\\\\\\`)))"),
 ("C20 key appended to the URL", "C20", "src/atlas.go", '"%s/api/atlas/v2/groups/%s/clusters/%s/logs/mongodb.gz?endDate=%d&startDate=%d",\n\t\tc.BaseURL, projectID, host, endDate, startDate,\n\t)', '"%s/api/atlas/v2/groups/%s/clusters/%s/logs/mongodb.gz?endDate=%d&startDate=%d&k=%s",\n\t\tc.BaseURL, projectID, host, endDate, startDate, url.QueryEscape(privateKey),\n\t)'),
 ("C20 key in the wrapped error", "C20", "src/atlas.go", '\t\treturn nil, fmt.Errorf("request failed: %w", err)', '\t\treturn nil, fmt.Errorf("request failed (user %s/%s): %w", publicKey, privateKey, err)'),
]

EXTRA_DECL = {  # declarations some mutants need
 "C06 field-name mode remembered across lines": ("src/anonymizer.go", "var (\n\tredactedString       = RedactedString", "var stickyEager bool\n\nvar (\n\tredactedString       = RedactedString"),
}
IMPORTS = {  # (file, import to add) when the mutant needs it
 "C13 pseudonym depends on the process": ("src/helpers.go", '"os"'),
 "C10 numbers encrypted as strings": ("src/anonymizer.go", '"fmt"'),
 "C14 value is matched too": ("src/anonymizer.go", '"fmt"'),
 "C06 raw line emitted when parsing fails": None,
 "C16 hosts in reverse order": ("src/atlas.go", '"slices"'),
 "C20 key appended to the URL": ("src/atlas.go", '"net/url"'),
}

def add_import(path, imp):
    s = open(path).read()
    if imp in s:
        return
    i = s.index("import (") + len("import (")
    open(path, "w").write(s[:i] + "\n\t" + imp + s[i:])

def run(cmd, cwd=None, env=None, timeout=3600):
    p = subprocess.run(cmd, cwd=cwd, env=env or ENV, stdout=subprocess.PIPE, stderr=subprocess.STDOUT, text=True, timeout=timeout)
    return p.returncode, p.stdout

def main():
    sel = sys.argv[1:]
    out = []
    for name, checks, f, old, new in M:
        if sel and not any(x.lower() in name.lower() for x in sel):
            continue
        d = tempfile.mkdtemp(prefix="mut-", dir="/tmp")
        try:
            repo = os.path.join(d, "repo")
            shutil.copytree("/repo", repo, ignore=shutil.ignore_patterns(".git"))
            p = os.path.join(repo, f)
            s = open(p).read()
            if old not in s:
                out.append(f"{name:55s} STALE (source text not found)")
                print(out[-1], flush=True)
                continue
            open(p, "w").write(s.replace(old, new, 1))
            if name in EXTRA_DECL:
                ef, eo, en = EXTRA_DECL[name]
                ep = os.path.join(repo, ef)
                es = open(ep).read()
                open(ep, "w").write(es.replace(eo, en, 1))
            if IMPORTS.get(name):
                add_import(os.path.join(repo, IMPORTS[name][0]), IMPORTS[name][1])
            rc, o = run([os.path.join(V, "repotest.sh")], env=dict(ENV, VERIF_REPO=repo))
            if rc != 0:
                kind = "does not build" if "build failed" in o or "[build failed]" in o else "killed by the repository's own suite"
                out.append(f"{name:55s} INVALID ({kind})")
                print(out[-1], flush=True)
                continue
            res = []
            for cid in checks.split(","):
                vd = os.path.join(d, "verifout-" + cid)
                os.makedirs(vd)
                shutil.copy(os.path.join(V, "known_findings.txt"), vd)
                os.symlink(os.path.join(V, "harness"), os.path.join(vd, "harness"))
                rc, o = run([os.path.join(V, "bin", "verif"), "check", cid, "--tier", "quick"], env=dict(ENV, VERIF_REPO=repo, VERIF_DIR=vd))
                nv = o.count("\nVIOLATION") + (1 if o.startswith("VIOLATION") else 0)
                res.append(f"{cid}: {'CAUGHT' if rc == 1 and nv > 0 else 'MISSED rc=%d' % rc} ({nv} sigs)")
            out.append(f"{name:55s} valid; " + "; ".join(res))
            print(out[-1], flush=True)
        finally:
            shutil.rmtree(d, ignore_errors=True)
    if not sel:
        open(os.path.join(V, "selftest", "results.txt"), "w").write("\n".join(out) + "\n")

if __name__ == "__main__":
    main()
