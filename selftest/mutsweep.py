#!/usr/bin/env python3
"""Systematic sensitivity sweep (DESIGN §9.6): every first-order AST mutant of the repository's
non-test sources (bin/mutgen) is applied to a scratch copy of /repo (never /repo itself). A mutant is
VALID when the copy still builds and the repository's own 123 tests pass; valid mutants are run through
the quick tier of the checks that observe the mutated file, cheapest first, stopping at the first
VIOLATION. What is left is listed as `uncaught` for triage (equivalent mutant / outside every
property's claim / gap to be closed by a stronger workload).

usage: mutsweep.py [-j N] [-f file-substring] [-k kind] [-l limit] [--retry-uncaught] [ids...]
results: selftest/mutsweep.jsonl (appended; ids already there are skipped unless given explicitly)
"""
import json, os, subprocess, sys, tempfile, shutil, threading, queue, time, argparse

V = os.path.dirname(os.path.dirname(os.path.abspath(__file__)))
ENV = dict(os.environ, GOFLAGS="-mod=mod", GOPROXY="off", GOTOOLCHAIN="auto")
OUT = os.path.join(V, "selftest", "mutsweep.jsonl")

ZONE = ["C15", "C12", "C02", "C19", "C03", "C01", "C04", "C05", "C14", "C10"]
CHECKS = {
    "src/anonymizer.go": ZONE,
    "src/operators.go": ["C03", "C01", "C05", "C04", "C14", "C15", "C12"],
    "src/helpers.go": ["C15", "C12", "C13", "C03", "C04", "C19", "C06", "C01", "C05", "C11", "C07"],
    "src/constants.go": ["C05", "C19", "C02", "C10", "C01"],
    "src/reader.go": ["C16", "C17", "C06", "C08", "C07"],
    "src/atlas.go": ["C16", "C17", "C20", "C18"],
    "src/encryption.go": ["C11", "C09", "C10"],
    "src/main.go": ["C11", "C16", "C17", "C20", "C18", "C06", "C09", "C01"],
}

lock = threading.Lock()

def sh(cmd, cwd=None, env=None, timeout=None):
    try:
        p = subprocess.run(cmd, cwd=cwd, env=env or ENV, stdout=subprocess.PIPE, stderr=subprocess.STDOUT, timeout=timeout, text=True, errors="replace")
        return p.returncode, p.stdout
    except subprocess.TimeoutExpired as e:
        return 124, (e.stdout or b"").decode("utf8", "replace") if isinstance(e.stdout, bytes) else (e.stdout or "")

def run_one(m, checks_override=None):
    d = tempfile.mkdtemp(prefix="mutsw-", dir="/tmp")
    res = dict(m)
    t0 = time.time()
    try:
        repo = os.path.join(d, "repo")
        sh(["rsync", "-a", "--exclude", ".git", "/repo/", repo + "/"])
        rc, out = sh([os.path.join(V, "bin", "mutgen"), "-root", repo, "apply", m["id"]])
        if rc != 0:
            res["status"] = "apply-failed"; return res
        shutil.copy(os.path.join(repo, "go.mod"), os.path.join(d, "go.mod")); shutil.copy(os.path.join(repo, "go.sum"), os.path.join(d, "go.sum"))
        mf = "-modfile=" + os.path.join(d, "go.mod")
        rc, out = sh(["go", "build", mf, "-o", os.path.join(d, "bin.out"), "./src"], cwd=repo, timeout=600)
        if rc != 0:
            res["status"] = "nobuild"; return res
        rc, out = sh(["go", "test", mf, "-vet=off", "-count=1", "-timeout", "120s", "./..."], cwd=repo, timeout=300)
        if rc != 0:
            res["status"] = "suite-kills"; return res
        vd = os.path.join(d, "v"); os.makedirs(vd)
        shutil.copy(os.path.join(V, "known_findings.txt"), vd)
        os.symlink(os.path.join(V, "harness"), os.path.join(vd, "harness"))
        env = dict(ENV, VERIF_REPO=repo, VERIF_DIR=vd)
        tried = []
        for cid in (checks_override or CHECKS.get(m["file"], ZONE)):
            rc, out = sh([os.path.join(V, "bin", "verif"), "check", cid, "--tier", "quick"], env=env, timeout=1500)
            nviol = sum(1 for l in out.splitlines() if l.startswith("VIOLATION"))
            tried.append("%s:%d:%d" % (cid, rc, nviol))
            if rc == 1 and nviol > 0:
                res["status"] = "caught"; res["by"] = cid
                first = [l for l in out.splitlines() if l.startswith("VIOLATION")][0]
                res["tried"] = tried
                return res
            shutil.rmtree(os.path.join(vd, "replay"), ignore_errors=True)
        res["status"] = "uncaught"; res["tried"] = tried
        return res
    finally:
        res["wall_s"] = round(time.time() - t0, 1)
        shutil.rmtree(d, ignore_errors=True)

def main():
    ap = argparse.ArgumentParser()
    ap.add_argument("-j", type=int, default=3)
    ap.add_argument("-f", default="")
    ap.add_argument("-k", default="")
    ap.add_argument("-l", type=int, default=0)
    ap.add_argument("--checks", default="")
    ap.add_argument("--retry-uncaught", action="store_true")
    ap.add_argument("ids", nargs="*")
    a = ap.parse_args()
    rc, out = sh([os.path.join(V, "bin", "mutgen"), "-root", "/repo", "list"])
    muts = [json.loads(l) for l in out.splitlines() if l.startswith("{")]
    muts = [m for m in muts if "test_params" not in m["file"]]
    # operators.go: key renames duplicate entry deletions; one type flip per entry
    def keep(m):
        if m["file"] == "src/operators.go":
            if m["kind"] == "str-key":
                return False
            if m["kind"] == "optype":
                frm = m["from"].split(",")[-1].strip(" )")
                want = {"Redactable": ["Exempt"], "Exempt": ["Redactable"], "FieldName": ["Redactable", "Exempt"], "Namespace": ["Redactable"]}.get(frm, ["Exempt"])
                return m["to"] in want
        return True
    muts = [m for m in muts if keep(m)]
    done = {}
    if os.path.exists(OUT):
        for l in open(OUT):
            try:
                r = json.loads(l); done[r["id"]] = r
            except Exception:
                pass
    if a.ids:
        muts = [m for m in muts if m["id"] in a.ids]
    else:
        muts = [m for m in muts if a.f in m["file"] and (not a.k or m["kind"] == a.k)]
        if a.retry_uncaught:
            muts = [m for m in muts if done.get(m["id"], {}).get("status") == "uncaught"]
        else:
            muts = [m for m in muts if m["id"] not in done]
    if a.l:
        muts = muts[:a.l]
    print("mutants to run:", len(muts), flush=True)
    q = queue.Queue()
    for m in muts:
        q.put(m)
    override = a.checks.split(",") if a.checks else None
    def worker():
        while True:
            try:
                m = q.get_nowait()
            except queue.Empty:
                return
            r = run_one(m, override)
            with lock:
                with open(OUT, "a") as f:
                    f.write(json.dumps(r) + "\n")
                print(r["id"], r["status"], r.get("by", ""), r.get("wall_s"), "|", r["func"], "|", r["from"][:70], "->", r["to"][:30], flush=True)
    ts = [threading.Thread(target=worker) for _ in range(a.j)]
    for t in ts: t.start()
    for t in ts: t.join()

if __name__ == "__main__":
    main()
