#!/bin/sh
# Runs the repository's own suite with hooks off (there are no in-repo hooks):
# the MANIFEST baseline_off_cmd. Never touches /repo/go.mod (uses -modfile).
export GOFLAGS=-mod=mod GOPROXY=off GOTOOLCHAIN=auto
REPO=${VERIF_REPO:-/repo}
S=$(mktemp -d); trap 'rm -rf "$S"' EXIT
cp "$REPO/go.mod" "$REPO/go.sum" "$S"/
cd "$REPO" && go test -modfile="$S/go.mod" -vet=off -count=1 -timeout 25m "$@" ./...
