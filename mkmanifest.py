#!/usr/bin/env python3
"""Regenerates /verif/MANIFEST.json from the table below (run after adding a check)."""
import json, os

V = os.path.dirname(os.path.abspath(__file__))

# id -> (category, technique, level text, level note, design ref)
CHECKS = {
    "C01": ("exploration",
            "runtime monitor: whole-line leak search over uniquely planted literals, grammar-generated inputs through the real CLI under a covering set of flag combinations, plus CLI-vs-in-process differential",
            "Held on the generated executions only: every planted sensitive literal (unique token per leaf) is searched in every emitted line in raw, escaped and decoded form; booleans by position. Reach comes from grammar coverage (every verb, zone, carrier, operator family, literal class) and flag-set coverage, not from enumeration.",
            "Trusts the driver's own JSON reader and the tagging of value positions in DESIGN Appendix A; says nothing about grammar positions the generator does not produce.",
            "DESIGN §4 C01"),
    "C02": ("exploration",
            "runtime monitor: two-run non-interference (relational) oracle — byte comparison of outputs for input pairs that differ only in sensitive values",
            "Held on the generated pairs: each grammar line is re-run with all sensitive leaves re-drawn inside their lexical class (fresh, all-equal, metacharacter-heavy, 20 000-character, 1-character) under placeholder-mode flag sets incl. -f; any differing output byte is a violation and the aligner names the leaf.",
            "Class membership of re-drawn values is by construction (conservative e-mail sub-grammar, no '@' / leading '$' in ordinary strings); numbers/booleans/remote only re-drawn under -n/-b/-i.",
            "DESIGN §4 C02"),
    "C03": ("exploration",
            "runtime monitor: independent strict JSON reader + lock-step tree aligner over grammar lines, vocabulary soup and the full {operator key}×{value kind}×{zone} product",
            "Held on the observed executions: every output must be exactly one strict JSON object on one line whose tree has the input's keys (in order), array lengths and leaf JSON types. The small product over the complete operator vocabulary (driver list ∪ keys dumped from the tool's tables) is enumerated in full in the thorough tier.",
            "Trusts the driver's own reader; inputs never have duplicate sibling keys; --redactFieldNames excluded by the statement.",
            "DESIGN §4 C03"),
    "C04": ("exploration",
            "runtime monitor: tree differential (decoded strings, RAW number text, key order) with a zone mask written from the property statement",
            "Held on the observed executions: all leaves tagged KEEP by the generator (everything outside the query-bearing command fields; $limit/$skip at any depth; top-level $sample.size, search index/numCandidates/limit; $binary.subType) plus whole other-component soup lines are compared with the output leaf by leaf, numbers by their literal text.",
            "The zone mask comes from the property's list of query-bearing fields, never from the tool; lone surrogates / invalid UTF-8 are not generated.",
            "DESIGN §4 C04"),
    "C05": ("exploration",
            "runtime monitor: per-leaf class validators (RFC 3339 parser, strict base64, 24-hex, e-mail grammar, exact replacement text) over aligned sensitive leaves",
            "Held on the observed executions: every aligned sensitive leaf of every class in every slot family is validated against the placeholder rules of the statement under 9 replacement strings.",
            "Validators are the driver's own; wrappers not listed in the statement are ordinary strings.",
            "DESIGN §4 C05"),
    "C19": ("exploration",
            "runtime monitor: two-pass fixed-point check — the first pass's output file is fed back through the CLI and compared as bytes",
            "Held on the generated files under 2^3 of -n -b -i × 5 replacement texts.",
            "Weak against canonicalising changes by construction (C04 covers those).",
            "DESIGN §4 C19"),
}

NOT_YET = {
}

def main():
    ids = ["C%02d" % i for i in range(1, 21)]
    checks = []
    na = []
    for i in ids:
        if i in CHECKS:
            cat, tech, text, note, ref = CHECKS[i]
            checks.append({
                "property_id": i,
                "quick_cmd": "./check %s quick" % i,
                "thorough_cmd": "./check %s thorough" % i,
                "evidence_file": "evidence/%s.json" % i,
                "replay_cmd_template": "./bin/verif replay {path}",
                "engine": "verif-driver",
                "level_claimed": {"category": cat, "text": text, "design_ref": ref},
                "level_note": note,
                "technique": tech,
            })
        else:
            na.append({"property_id": i, "reason": NOT_YET.get(i, "monitor not built yet in this round (runtime monitoring applies; see DESIGN §4) — not claimed until its check exists and is silent on the unchanged tree")})
    m = {
        "version": 1,
        "setup_cmd": "./setup.sh",
        "hooks": {
            "guard": "verif",
            "enable": "no source hooks: the in-process agent /verif/harness/agent/agent_test.go (//go:build verif) is overlaid into package main at build time with `go test -c -tags verif -overlay`; the CLI is built unmodified with `go build -race -cover`",
            "baseline_off_cmd": "./repotest.sh -json",
            "source_commits": [],
            "add_only": True,
        },
        "engines": [{
            "name": "verif-driver",
            "path": "harness/",
            "serves_properties": [c["property_id"] for c in checks],
            "kind_free_text": "stdlib-only Go driver: tagged grammar generator, independent ordered JSON reader/aligner, fault injectors, fake Atlas endpoint behind a CONNECT proxy, offline checkers over recorded outputs / write logs / request logs; drives the real CLI binary and an overlaid in-process agent, both rebuilt from /repo with -race -cover on every run",
        }],
        "checks": checks,
        "not_applicable": na,
        "notes": "Runtime monitoring only. Verdicts are three-valued: exit 0 held on what was observed, exit 1 + VIOLATION line, exit 2 + INCONCLUSIVE line (watchdog, build failure, too few observations). Known findings: known_findings.txt.",
    }
    with open(os.path.join(V, "MANIFEST.json"), "w") as f:
        json.dump(m, f, indent=1, ensure_ascii=False)
        f.write("\n")

if __name__ == "__main__":
    main()
