#!/usr/bin/env python3
"""Regenerates /verif/MANIFEST.json from the table below (run after adding a check)."""
import json, os

V = os.path.dirname(os.path.abspath(__file__))

# id -> (category, technique, level text, level note, design ref)
CHECKS = {
    "C01": ("exploration",
            "runtime monitor: whole-line leak search over uniquely planted literals, grammar-generated inputs through the real CLI under a covering set of flag combinations, plus CLI-vs-in-process differential",
            "Held on the generated executions only: every planted sensitive literal (unique token per leaf) is searched in every emitted line in raw, escaped and decoded form; booleans by position. Reach comes from grammar coverage (every verb, zone, carrier, operator family, literal class) and flag-set coverage, not from enumeration.",
            "Trusts the driver's own JSON reader and the tagging of value positions in DESIGN Appendix A; says nothing about grammar positions the generator does not produce.",
            "DESIGN §4 C01"),
}

NOT_YET = {
}

def main():
    ids = ["C%02d" % i for i in range(1, 21)]
    checks = []
    na = []
    for i in ids:
        if i in CHECKS:
            cat, tech, text, note, ref = CHECKS[i]
            checks.append({
                "property_id": i,
                "quick_cmd": "./check %s quick" % i,
                "thorough_cmd": "./check %s thorough" % i,
                "evidence_file": "evidence/%s.json" % i,
                "replay_cmd_template": "./bin/verif replay {path}",
                "engine": "verif-driver",
                "level_claimed": {"category": cat, "text": text, "design_ref": ref},
                "level_note": note,
                "technique": tech,
            })
        else:
            na.append({"property_id": i, "reason": NOT_YET.get(i, "monitor not built yet in this round (runtime monitoring applies; see DESIGN §4) — not claimed until its check exists and is silent on the unchanged tree")})
    m = {
        "version": 1,
        "setup_cmd": "./setup.sh",
        "hooks": {
            "guard": "verif",
            "enable": "no source hooks: the in-process agent /verif/harness/agent/agent_test.go (//go:build verif) is overlaid into package main at build time with `go test -c -tags verif -overlay`; the CLI is built unmodified with `go build -race -cover`",
            "baseline_off_cmd": "./repotest.sh -json",
            "source_commits": [],
            "add_only": True,
        },
        "engines": [{
            "name": "verif-driver",
            "path": "harness/",
            "serves_properties": [c["property_id"] for c in checks],
            "kind_free_text": "stdlib-only Go driver: tagged grammar generator, independent ordered JSON reader/aligner, fault injectors, fake Atlas endpoint behind a CONNECT proxy, offline checkers over recorded outputs / write logs / request logs; drives the real CLI binary and an overlaid in-process agent, both rebuilt from /repo with -race -cover on every run",
        }],
        "checks": checks,
        "not_applicable": na,
        "notes": "Runtime monitoring only. Verdicts are three-valued: exit 0 held on what was observed, exit 1 + VIOLATION line, exit 2 + INCONCLUSIVE line (watchdog, build failure, too few observations). Known findings: known_findings.txt.",
    }
    with open(os.path.join(V, "MANIFEST.json"), "w") as f:
        json.dump(m, f, indent=1, ensure_ascii=False)
        f.write("\n")

if __name__ == "__main__":
    main()
