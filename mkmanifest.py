#!/usr/bin/env python3
"""Regenerates /verif/MANIFEST.json from the table below (run after adding a check)."""
import json, os

V = os.path.dirname(os.path.abspath(__file__))

# id -> (category, technique, level text, level note, design ref)
CHECKS = {
    "C01": ("exploration",
            "runtime monitor: whole-line leak search over uniquely planted literals, grammar-generated inputs through the real CLI under a covering set of flag combinations, plus CLI-vs-in-process differential",
            "Held on the generated executions only: every planted sensitive literal (unique token per leaf) is searched in every emitted line in raw, escaped and decoded form; booleans by position. Reach comes from grammar coverage (every verb, zone, carrier, operator family, literal class) and flag-set coverage, not from enumeration.",
            "Trusts the driver's own JSON reader and the tagging of value positions in DESIGN Appendix A; says nothing about grammar positions the generator does not produce.",
            "DESIGN §4 C01"),
    "C02": ("exploration",
            "runtime monitor: two-run non-interference (relational) oracle — byte comparison of outputs for input pairs that differ only in sensitive values",
            "Held on the generated pairs: each grammar line is re-run with all sensitive leaves re-drawn inside their lexical class (fresh, all-equal, metacharacter-heavy, 20 000-character, 1-character) under placeholder-mode flag sets incl. -f; any differing output byte is a violation and the aligner names the leaf.",
            "Class membership of re-drawn values is by construction (conservative e-mail sub-grammar, no '@' / leading '$' in ordinary strings); numbers/booleans/remote only re-drawn under -n/-b/-i.",
            "DESIGN §4 C02"),
    "C03": ("exploration",
            "runtime monitor: independent strict JSON reader + lock-step tree aligner over grammar lines, vocabulary soup and the full {operator key}×{value kind}×{zone} product",
            "Held on the observed executions: every output must be exactly one strict JSON object on one line whose tree has the input's keys (in order), array lengths and leaf JSON types. The small product over the complete operator vocabulary (driver list ∪ keys dumped from the tool's tables) is enumerated in full in the thorough tier.",
            "Trusts the driver's own reader; inputs never have duplicate sibling keys; --redactFieldNames excluded by the statement.",
            "DESIGN §4 C03"),
    "C04": ("exploration",
            "runtime monitor: tree differential (decoded strings, RAW number text, key order) with a zone mask written from the property statement",
            "Held on the observed executions: all leaves tagged KEEP by the generator (everything outside the query-bearing command fields; $limit/$skip at any depth; top-level $sample.size, search index/numCandidates/limit; $binary.subType) plus whole other-component soup lines are compared with the output leaf by leaf, numbers by their literal text.",
            "The zone mask comes from the property's list of query-bearing fields, never from the tool; lone surrogates / invalid UTF-8 are not generated.",
            "DESIGN §4 C04"),
    "C05": ("exploration",
            "runtime monitor: per-leaf class validators (RFC 3339 parser, strict base64, 24-hex, e-mail grammar, exact replacement text) over aligned sensitive leaves",
            "Held on the observed executions: every aligned sensitive leaf of every class in every slot family is validated against the placeholder rules of the statement under 9 replacement strings.",
            "Validators are the driver's own; wrappers not listed in the statement are ordinary strings.",
            "DESIGN §4 C05"),
    "C06": ("exploration",
            "runtime monitor: offline checker over recorded outputs of line-sequence histories — marker-based identity/order, concatenation/permutation/duplication laws, byte equality across 40 channel variants, singleton references from fresh processes; race-detector reports counted",
            "Held on the generated histories only (64 quick / 1 500 thorough sequences of up to 160 / 2 000 lines over 9 line classes, 5 flag sets incl. -w and -f).",
            "'JSON object' is decided by the driver's strict reader; lines >= 64 KiB, invalid UTF-8 and duplicate keys are not generated here.",
            "DESIGN §4 C06"),
    "C07": ("exploration",
            "runtime monitor: sandwich runs (sentinel, hostile, sentinel, ...) through the real CLI with sentinel-sequence / exit / stderr oracle and bisection, plus in-process calls with per-call recover under -race; limit-length lines at 3 positions",
            "Held on the hostile lines produced: zone x {vocabulary key, wrapper} x value kind, every envelope key x value kind, every special code point in keys/strings, non-JSON token classes, fixture truncations at byte offsets, structural and byte-level fixture mutants, nesting to the line limit, under 6 modes.",
            "Quick tier runs a quarter of the key x kind product and 2 of 6 modes per line through the CLI (3 of 6 in-process); native coverage-guided fuzzing is not used.",
            "DESIGN §4 C07"),
    "C08": ("fault_enumeration",
            "runtime monitor: fault enumeration with recorded write-call logs — k-th Write fails/short for every k, k-th Read fails for every k under 3 chunkings and every byte offset, gzip streams cut at every offset and flipped at every byte (in-process, failing io.Reader/io.Writer), RLIMIT_FSIZE grid, /dev/full, reader-closed pipe and damaged .gz files through the CLI; thorough adds strace ENOSPC/EIO injection",
            "Exhaustive over k / byte offsets for the listed inputs (27 inputs quick), not over inputs.",
            "Byte flips inside gzip data: only 'no success on damaged data' and 'stop at a line boundary' are demanded; a cut exactly between two gzip members is a well-formed shorter stream and is not counted as a fault.",
            "DESIGN §4 C08"),
    "C09": ("exploration",
            "runtime monitor: end-to-end round trip — every sensitive string leaf of `redact --encrypt` output decrypted (in-process for all, one `decrypt` process per sampled leaf) and compared with the planted value; exhaustive single-byte corruption / truncation of sampled ciphertexts and wrong keys must be rejected",
            "Held on the generated strings/keys; corruption positions are exhaustive for the 24 (quick) sampled ciphertexts.",
            "A base64 text edit that leaves the decoded bytes unchanged (unused trailing bits) is not an altered ciphertext.",
            "DESIGN §4 C09"),
    "C10": ("exploration",
            "runtime monitor: three-way leaf-wise differential (input / placeholder-mode output / encrypt-mode output), plaintext<->ciphertext bimap over two processes and two files per key, in-process decryption of every distinct ciphertext, whole-line leak search, unusable key materials injected through the API",
            "Held on the generated multi-line inputs with pools of equal and near-duplicate literals (also across $oid/$date/$binary positions).",
            "Leaves whose input equals a placeholder constant are ambiguous and skipped (counted).",
            "DESIGN §4 C10"),
    "C11": ("fault_enumeration",
            "runtime monitor: state machine over directory snapshots for every initial key-path state x run sequences of length 1-3 (real CLI processes), decryptability through the real decrypt command, strace syscall order 'key file closed before first write to the output file', EACCES injected with strace, GenerateKey distinctness",
            "Exhaustive over the 36 listed states (incl. the output file being an alias of the key path, a write-only key file) x 4 sequences, runs that fail part-way, and 6 Atlas jobs with --encrypt through the fake endpoint; GenerateKey on 3 000 (quick) calls in two processes.",
            "'valid+LF/CRLF' and URL-safe text may be accepted or refused (both consistent with the statement); unreadable needs strace (root sandbox).",
            "DESIGN §4 C11"),
    "C13": ("exploration",
            "runtime monitor: relational oracle over HashName histories recorded at the API boundary (determinism across call orders / option histories / poisoned side table / two processes, injectivity, homomorphism over '.', '$'-insensitivity, form) plus pseudonyms read from real CLI -w / -f output",
            "Exhaustive on the 65 640-name dictionary (length <= 3 over 40 symbols) + 100 000 identifiers (quick) under 7 replacement strings.",
            "The SHA-256 formula is not pinned; names differing only by Unicode normalisation are different names.",
            "DESIGN §4 C13"),
    "C12": ("exploration",
            "runtime monitor: per-log offline checker — whole-line leak search for planted names, positional mask of namespace-bearing positions written from the statement, name<->pseudonym bimap over the multi-line log (one process), tree differential against the flag-off run of the same log",
            "Held on the generated logs (320 quick / 4 000 thorough, 18 lines each): every declared verb and alias, getMore, three carriers, other components with attr.ns, $lookup/$graphLookup/$unionWith/$merge/$out in string / {coll} / {into} / {db,coll} forms at depth 0-3, tricky names.",
            "The 'distinct' verb is not in the statement's list and is not generated; P is learned from the same log (its form/stability is C13).",
            "DESIGN §4 C12"),
    "C14": ("exploration",
            "runtime monitor: per-leaf verdict oracle — should_redact computed in the driver from the object keys on the input path with Go's regexp on the same pattern text, compared with 'changed / unchanged' of the aligned output leaf",
            "Held on the wrapper x name x class catalogue (31 wrappers x matching/non-matching names x 7 classes x 27 regexp families, incl. patterns that match protocol keys, operators and stage arguments) plus random grammar lines; '$'-keys never count as field names.",
            "Search stages, literals next to a matching '$field' reference, leaves under a matching stage-argument key, and numbers/booleans without -n/-b are not judged.",
            "DESIGN §4 C14"),
    "C15": ("exploration",
            "runtime monitor: per-log offline checker — positional renaming check of planted field names (keys, '$field' references, plan-summary tokens by an independent tokeniser) with a name<->pseudonym bimap, whole-line leak search, value and byte differential against the flag-off run",
            "Held on the generated logs (260 quick / 3 000 thorough, 10 lines each) over 5 verbs, 8 prefix-vs-namespace relations and 6 plan-summary forms.",
            "Names are planted only at the positions the statement lists; whether a renamed reference keeps its '$' is not judged.",
            "DESIGN §4 C15"),
    "C16": ("exploration",
            "runtime monitor: offline checker over the request log of a fake Atlas endpoint (plain HTTP for the library, CONNECT proxy + throw-away CA for the unmodified CLI): expected exchange per configuration, CONNECT targets, stored bytes, <out>.<i> vs the file-channel redaction of payload i, default window bracketed by wall clock",
            "Held on 41 configurations (8 host lists x 5 windows + SRV) at library and CLI level.",
            "SRV cannot resolve offline: clean failure with zero downloads is required.",
            "DESIGN §4 C16"),
    "C17": ("fault_enumeration",
            "runtime monitor: fault enumeration at a hostile fake endpoint — n in 1..4 x failing host k x 12 fault kinds + cluster-lookup faults + success; TMPDIR listing when DownloadClusterLogs returns / after DeleteClusterLogs (in-process) and after the CLI process exits",
            "Exhaustive over n x k x fault kind (232 cases) at both levels.",
            "On success the returned files belong to the caller; only their number is checked before deletion.",
            "DESIGN §4 C17"),
    "C18": ("exploration",
            "runtime monitor: exhaustive configuration enumeration — all 8 192 switch combinations as real processes in fresh directories, outcome class vs a rule table written from the statement, directory snapshots and fake-endpoint event log for side effects",
            "Exhaustive: 8 192 of 8 192 combinations in both tiers.",
            "Which message is printed is not judged; --encrypt with Atlas input and -o counts as well-defined.",
            "DESIGN §4 C18"),
    "C20": ("fault_enumeration",
            "runtime monitor: artefact search — every byte the fake endpoint received (below the HTTP parser, incl. CONNECT preambles), stdout, stderr, returned errors and all files left behind are searched for 10 encodings of the private key; Authorization headers scanned for credentials sent without a Digest challenge",
            "Held on 5 supply modes x 15 server behaviours x 5 keys (CLI) + 15 x 5 (library).",
            "/proc/<pid>/cmdline is not an artefact; the Digest response hash and the public key as Digest username are expected.",
            "DESIGN §4 C20"),
    "C19": ("exploration",
            "runtime monitor: two-pass fixed-point check — the first pass's output file is fed back through the CLI and compared as bytes",
            "Held on the generated files under 2^3 of -n -b -i × 5 replacement texts.",
            "Weak against canonicalising changes by construction (C04 covers those).",
            "DESIGN §4 C19"),
}

NOT_YET = {
}

def main():
    ids = ["C%02d" % i for i in range(1, 21)]
    checks = []
    na = []
    for i in ids:
        if i in CHECKS:
            cat, tech, text, note, ref = CHECKS[i]
            checks.append({
                "property_id": i,
                "quick_cmd": "./check %s quick" % i,
                "thorough_cmd": "./check %s thorough" % i,
                "evidence_file": "evidence/%s.json" % i,
                "replay_cmd_template": "./bin/verif replay {path}",
                "engine": "verif-driver",
                "level_claimed": {"category": cat, "text": text, "design_ref": ref},
                "level_note": note,
                "technique": tech,
            })
        else:
            na.append({"property_id": i, "reason": NOT_YET.get(i, "monitor not built yet in this round (runtime monitoring applies; see DESIGN §4) — not claimed until its check exists and is silent on the unchanged tree")})
    m = {
        "version": 1,
        "setup_cmd": "./setup.sh",
        "hooks": {
            "guard": "verif",
            "enable": "no source hooks: the in-process agent /verif/harness/agent/agent_test.go (//go:build verif) is overlaid into package main at build time with `go test -c -tags verif -overlay`; the CLI is built unmodified with `go build -race -cover`",
            "baseline_off_cmd": "./repotest.sh -json",
            "source_commits": [],
            "add_only": True,
        },
        "engines": [{
            "name": "verif-driver",
            "path": "harness/",
            "serves_properties": [c["property_id"] for c in checks],
            "kind_free_text": "stdlib-only Go driver: tagged grammar generator, independent ordered JSON reader/aligner, fault injectors, fake Atlas endpoint behind a CONNECT proxy, offline checkers over recorded outputs / write logs / request logs; drives the real CLI binary and an overlaid in-process agent, both rebuilt from /repo with -race -cover on every run",
        }],
        "checks": checks,
        "not_applicable": na,
        "notes": "Runtime monitoring only. Verdicts are three-valued: exit 0 held on what was observed, exit 1 + VIOLATION line, exit 2 + INCONCLUSIVE line (watchdog, build failure, too few observations). Known findings: known_findings.txt.",
    }
    with open(os.path.join(V, "MANIFEST.json"), "w") as f:
        json.dump(m, f, indent=1, ensure_ascii=False)
        f.write("\n")

if __name__ == "__main__":
    main()
