#!/bin/sh
# usage: sweep.sh [tier] [ids...]   runs the registered checks one after the other and validates the evidence files
V=$(cd "$(dirname "$0")" && pwd); T=${1:-quick}; shift 2>/dev/null
IDS=${*:-$(seq -f "C%02g" 1 20)}
for id in $IDS; do
  s=$(date +%s); out=$("$V/check" $id $T 2>&1); rc=$?; e=$(date +%s)
  echo "$id rc=$rc $((e-s))s $(echo "$out" | grep -c '^VIOLATION') violations; $(echo "$out" | grep -E '^(KNOWN-FINDING|INCONCLUSIVE)' | head -3 | tr '\n' ' ')"
  [ $rc -ne 0 ] && echo "$out" | grep -A2 '^VIOLATION' | head -12
done
python3-vt - <<'PY'
import json,jsonschema,glob
sch=json.load(open('/root/.vp/EVIDENCE.schema.json'))
for f in sorted(glob.glob('/verif/evidence/*.json')):
    try:
        d=json.load(open(f)); jsonschema.validate(d,sch)
        cv=d['coverage']; print(f.split('/')[-1], 'ok', d['tier'], 'eval',cv['evaluations'],'distinct',cv['distinct_nontrivial'],'samples',len(cv['samples']),'wall',d['wall_s'])
    except Exception as ex: print(f,'INVALID',str(ex)[:200])
PY
