#!/bin/sh
# usage: seedkeep.sh <ID> <X> <caught_by> <needs...>   copies a confirmed seeded change into /verif/seeded/<ID>-<X>/
ID=$1; X=$2; CB=$3; shift 3; NEEDS="$*"
S=/tmp/seed/$ID/$X; D=/verif/seeded/$ID-$X; mkdir -p "$D"
# re-base the patch on the current /repo HEAD (scratch worktree), so it applies with `git apply`
W=$(mktemp -d /tmp/wt-rebase-XXXX); rmdir "$W"; git -C /repo worktree add -q --detach "$W" HEAD
(cd "$W" && patch -p1 -s --no-backup-if-mismatch < "$S/patch.diff" && git add -A && git diff --cached > "$D/patch.diff") || { echo "REBASE FAILED for $ID/$X"; cp "$S/patch.diff" "$D/"; }
git -C /repo worktree remove --force "$W"
 for f in demo_test.go demo.sh notes.md; do [ -f "$S/$f" ] && cp "$S/$f" "$D/"; done
python3 - "$ID" "$X" "$CB" "$NEEDS" "$(git -C /repo rev-parse --short HEAD)" <<'PY'
import json,sys
i,x,cb,needs,base=sys.argv[1:6]
json.dump({"property":i,"variant":x,"base_commit":base,"needs_to_manifest":needs,
 "confirmed":"seedeval.sh: existing suite passes with the change; demonstration passes on the unchanged tree and fails with the change (scratch worktree /tmp/wt/%s)"%i,
 "ran":"mutate.sh seeded/%s-%s/patch.diff -- <check> (scratch copy of /repo, quick tier)"%(i,x),
 "caught_by":cb},open("/verif/seeded/%s-%s/meta.json"%(i,x),"w"),indent=1)
PY
