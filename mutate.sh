#!/bin/sh
# usage: mutate.sh <patch.diff | -e 'sed-expr' file> -- <ID> [tier]
# Applies a change to a scratch copy of /repo (never /repo itself), runs the
# repository suite (optional: MUT_SUITE=1) and the named check against the copy.
V=$(cd "$(dirname "$0")" && pwd)
D=$(mktemp -d /tmp/mut-XXXXXX); trap 'rm -rf "$D"' EXIT
rsync -a --exclude .git /repo/ "$D/repo/"
if [ "$1" = "-e" ]; then sed -i -e "$2" "$D/repo/$3" || exit 3; shift 3; else (cd "$D/repo" && patch -p1 -s < "$1") || exit 3; shift; fi
[ "$1" = "--" ] && shift
(cd "$D/repo" && diff -ru /repo/src src | head -${MUT_DIFF_LINES:-30})
if [ -n "$MUT_SUITE" ]; then VERIF_REPO="$D/repo" "$V/repotest.sh" 2>&1 | tail -3; fi
for id in $(echo "$1" | tr , ' '); do
VERIF_REPO="$D/repo" VERIF_DIR="$D/verifout" sh -c "mkdir -p $D/verifout && cp $V/known_findings.txt $D/verifout/ && ln -sfn $V/harness $D/verifout/harness && ln -sfn $V/bin $D/verifout/bin && $V/bin/verif check $id --tier ${2:-quick}" 2>&1 | grep -v '^    ' | tail -${MUT_TAIL:-6}
echo "exit=$?"
done
