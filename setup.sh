#!/bin/sh
# MANIFEST.setup_cmd: build the stdlib-only driver from files on disk.
V=$(cd "$(dirname "$0")" && pwd)
mkdir -p "$V/bin" "$V/evidence"
cd "$V/harness" && GOFLAGS=-mod=mod GOPROXY=off GOTOOLCHAIN=local go build -o "$V/bin/verif" ./cmd/verif
