#!/bin/sh
# usage: seedsweep.sh [ids...]   applies every kept seeded change to a scratch copy of /repo and runs the
# quick check that meta.json names first under caught_by (usually the property's own): every one must be CAUGHT. Results: selftest/seedsweep.txt
V=$(cd "$(dirname "$0")" && pwd)
OUT="$V/selftest/seedsweep.txt"; [ $# -eq 0 ] && : > "$OUT"
for d in ${*:-$(ls "$V/seeded")}; do
  S="$V/seeded/$d"; ID=$(echo "$d" | cut -d- -f1)
  # the check named first in meta.json's caught_by ("C06 quick (also C03, C19)") is the one that must catch it
  CB=$(python3 -c "import json,sys,re; m=re.match(r'(C\d\d)', json.load(open(sys.argv[1])).get('caught_by','')); print(m.group(1) if m else '')" "$S/meta.json" 2>/dev/null)
  [ -n "$CB" ] && ID=$CB
  if grep -q '"caught_by": "NOT CAUGHT' "$S/meta.json"; then echo "$d RECORDED-AS-NOT-CAUGHT (see meta.json / DESIGN 9.4)" | tee -a "$OUT"; continue; fi
  D=$(mktemp -d /tmp/mut-XXXXXX)
  rsync -a --exclude .git /repo/ "$D/repo/"
  if ! (cd "$D/repo" && patch -p1 -s --no-backup-if-mismatch < "$S/patch.diff" >/dev/null 2>&1); then echo "$d PATCH-DOES-NOT-APPLY" | tee -a "$OUT"; rm -rf "$D"; continue; fi
  mkdir -p "$D/v" && cp "$V/known_findings.txt" "$D/v/" && ln -s "$V/harness" "$D/v/harness"
  o=$(VERIF_REPO="$D/repo" VERIF_DIR="$D/v" "$V/bin/verif" check $ID --tier quick 2>&1); rc=$?
  n=$(echo "$o" | grep -c '^VIOLATION')
  if [ $rc -eq 1 ] && [ $n -gt 0 ]; then r=CAUGHT; else r="MISSED(rc=$rc)"; fi
  echo "$d $r $(echo "$o" | tail -1 | sed 's/.*violations=/violations=/' | cut -c1-60)" | tee -a "$OUT"
  rm -rf "$D"
done
