#!/bin/sh
# usage: seedeval.sh <ID> <X> [srcdir=/tmp/seed]   — confirms a seeded change in the scratch worktree /tmp/wt/<ID>:
# suite passes with the change; demonstration passes without and fails with it.
ID=$1; X=$2; S=${3:-/tmp/seed}/$ID/$X; W=${SEED_WT:-/tmp/wt}/$ID
export GOFLAGS=-mod=mod GOPROXY=off GOTOOLCHAIN=auto
[ -d "$W" ] || git -C /repo worktree add -q --detach "$W" HEAD
cd "$W" && git checkout -q -- . && git clean -qfd
demo() { # $1 = label
  if [ -f "$S/demo_test.go" ]; then
    cp "$S/demo_test.go" src/zz_demo_test.go
    names=$(grep -o '^func Test[A-Za-z0-9_]*' "$S/demo_test.go" | sed 's/func //' | paste -sd'|')
    go test -vet=off -count=1 -run "^($names)\$" ./src >/tmp/seedeval.$$.log 2>&1; rc=$?
    rm -f src/zz_demo_test.go
  else
    go build -o "$W/anonymongo.bin" ./src && bash "$S/demo.sh" "$W/anonymongo.bin" >/tmp/seedeval.$$.log 2>&1; rc=$?
    rm -f "$W/anonymongo.bin"
  fi
  echo "demo[$1] rc=$rc"; [ -n "$SEED_VERBOSE" ] && tail -15 /tmp/seedeval.$$.log; rm -f /tmp/seedeval.$$.log
}
demo clean
git apply "$S/patch.diff" || { echo "PATCH DOES NOT APPLY"; exit 3; }
go test -vet=off -count=1 ./... >/tmp/seedeval.$$.s 2>&1; echo "suite[patched] rc=$? $(tail -1 /tmp/seedeval.$$.s)"; rm -f /tmp/seedeval.$$.s
demo patched
git checkout -q -- . && git clean -qfd
