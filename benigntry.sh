#!/bin/sh
# usage: benigntry.sh <patch.diff> <ID[,ID...]>   applies a property-PRESERVING variant to a scratch copy of /repo,
# runs the repository suite and the named quick checks against it: every check must stay SILENT (exit 0).
V=$(cd "$(dirname "$0")" && pwd)
D=$(mktemp -d /tmp/ben-XXXXXX); trap 'rm -rf "$D"' EXIT
rsync -a --exclude .git /repo/ "$D/repo/"
(cd "$D/repo" && patch -p1 -s --no-backup-if-mismatch < "$1") || { echo "PATCH-DOES-NOT-APPLY $1"; exit 3; }
VERIF_REPO="$D/repo" "$V/repotest.sh" 2>&1 | tail -1
mkdir -p "$D/v" && cp "$V/known_findings.txt" "$D/v/" && ln -s "$V/harness" "$D/v/harness"
for id in $(echo "$2" | tr , ' '); do
  o=$(VERIF_REPO="$D/repo" VERIF_DIR="$D/v" "$V/bin/verif" check $id --tier quick 2>&1); rc=$?
  echo "$id rc=$rc $(echo "$o" | tail -1 | cut -c1-120)"
  if [ $rc -ne 0 ]; then echo "$o" | grep -A3 '^VIOLATION\|^INCONCLUSIVE' | head -16; fi
done
