// Package atlasfake is the hostile fake Atlas API endpoint of DESIGN §3.4:
// a plain-HTTP server for the in-process (BaseURL) channel and a CONNECT
// proxy that terminates TLS with a throw-away CA for the real CLI (which
// talks to the hard-coded https://cloud.mongodb.com through HTTPS_PROXY and
// SSL_CERT_FILE). Every request is recorded below the HTTP parser (raw bytes)
// and above it (method, path, query, headers) — the event log the C16 / C17 /
// C18 / C20 oracles judge offline.
package atlasfake

import (
	"bufio"
	"bytes"
	"compress/gzip"
	"crypto/ecdsa"
	"crypto/elliptic"
	"crypto/rand"
	"crypto/tls"
	"crypto/x509"
	"crypto/x509/pkix"
	"encoding/json"
	"encoding/pem"
	"fmt"
	"math/big"
	"net"
	"net/http"
	"os"
	"sort"
	"strings"
	"sync"
	"time"
)

// Req is one HTTP request as seen by the fake endpoint.
type Req struct {
	Seq           int
	Method        string
	Host          string
	Path          string
	RawQuery      string
	Header        http.Header
	Authorization string
	Connect       string // CONNECT target this request arrived through ("" = plain listener)
	Body          []byte
}

// Fault describes how the log download of one host misbehaves.
type Fault struct {
	Kind   string // "" none | status | reset | cut | nongzip (payload served as is)
	Status int
	CutAt  int  // bytes of body sent before the connection is cut ("cut")
	Once   bool // transient: only the first authenticated request for the host misbehaves, later ones are served
}

// Config is the behaviour of one fake endpoint.
type Config struct {
	Project, Cluster string
	ConnStr          string            // connectionStrings.standard
	ExtraJSON        bool              // extra members in the cluster description
	Payload          map[string][]byte // host -> body of logs/mongodb.gz
	Faults           map[string]Fault  // host -> fault
	ClusterFault     Fault             // fault on the cluster description
	// Auth: digest (default) | none | basic | always401 | malformed | status:<n> (every authenticated request answered n with an echo body)
	Auth     string
	EchoBody bool // error bodies echo method, URL and all request headers
	// FrontEndGzip: hosts whose download passes a compressing front end — when the request
	// advertises gzip the entity is sent with Content-Encoding: gzip (the .gz file compressed once more
	// for transport); what the client stores must still be the entity itself
	FrontEndGzip map[string]bool
	// OnRequest, when set, is called synchronously for every request before it is answered (the
	// client is waiting at that moment): lets a monitor look at the client's files DURING the run
	OnRequest func(path string)
}

type Server struct {
	faultFired     map[string]bool
	cfg            Config
	mu             sync.Mutex
	log            []Req
	raw            bytes.Buffer // every byte received on every connection, in arrival order per connection
	connects       []string
	plainProxyReqs []string
	ln             net.Listener
	pln            net.Listener
	srv            *http.Server
	leaf           tls.Certificate
	CAPEM          []byte
	nonce          int
}

// New starts a plain-HTTP listener (URL()) and a CONNECT proxy (ProxyURL()).
func New(cfg Config) (*Server, error) {
	s := &Server{cfg: cfg}
	if err := s.makeCA(); err != nil {
		return nil, err
	}
	var err error
	if s.ln, err = net.Listen("tcp", "127.0.0.1:0"); err != nil {
		return nil, err
	}
	if s.pln, err = net.Listen("tcp", "127.0.0.1:0"); err != nil {
		return nil, err
	}
	s.srv = &http.Server{Handler: http.HandlerFunc(func(w http.ResponseWriter, r *http.Request) { s.handle(w, r, "") }), ReadHeaderTimeout: 20 * time.Second}
	go s.srv.Serve(&tapListener{Listener: s.ln, s: s})
	go s.proxyLoop()
	return s, nil
}

func (s *Server) URL() string       { return "http://" + s.ln.Addr().String() }
func (s *Server) ProxyURL() string  { return "http://" + s.pln.Addr().String() }
func (s *Server) ProxyAddr() string { return s.pln.Addr().String() }

func (s *Server) Close() {
	s.srv.Close()
	s.ln.Close()
	s.pln.Close()
}

// WriteCA writes the CA certificate (PEM) for SSL_CERT_FILE.
func (s *Server) WriteCA(path string) error { return os.WriteFile(path, s.CAPEM, 0o644) }

func (s *Server) Log() []Req {
	s.mu.Lock()
	defer s.mu.Unlock()
	return append([]Req{}, s.log...)
}

// Raw returns every byte the endpoint received (CONNECT preambles and the
// decrypted request streams).
func (s *Server) Raw() []byte {
	s.mu.Lock()
	defer s.mu.Unlock()
	return append([]byte{}, s.raw.Bytes()...)
}

// Connects returns the CONNECT targets seen by the proxy, in order.
func (s *Server) Connects() []string {
	s.mu.Lock()
	defer s.mu.Unlock()
	return append([]string{}, s.connects...)
}

// PlainProxyRequests returns non-CONNECT requests sent to the proxy (there must be none).
func (s *Server) PlainProxyRequests() []string {
	s.mu.Lock()
	defer s.mu.Unlock()
	return append([]string{}, s.plainProxyReqs...)
}

// ---------------------------------------------------------------- TLS / proxy

func (s *Server) makeCA() error {
	caKey, err := ecdsa.GenerateKey(elliptic.P256(), rand.Reader)
	if err != nil {
		return err
	}
	caT := &x509.Certificate{SerialNumber: big.NewInt(1), Subject: pkix.Name{CommonName: "verif throw-away CA"}, NotBefore: time.Now().Add(-time.Hour), NotAfter: time.Now().Add(48 * time.Hour),
		IsCA: true, KeyUsage: x509.KeyUsageCertSign | x509.KeyUsageDigitalSignature, BasicConstraintsValid: true}
	caDER, err := x509.CreateCertificate(rand.Reader, caT, caT, &caKey.PublicKey, caKey)
	if err != nil {
		return err
	}
	caCert, _ := x509.ParseCertificate(caDER)
	s.CAPEM = pem.EncodeToMemory(&pem.Block{Type: "CERTIFICATE", Bytes: caDER})
	leafKey, err := ecdsa.GenerateKey(elliptic.P256(), rand.Reader)
	if err != nil {
		return err
	}
	leafT := &x509.Certificate{SerialNumber: big.NewInt(2), Subject: pkix.Name{CommonName: "cloud.mongodb.com"}, DNSNames: []string{"cloud.mongodb.com"}, NotBefore: time.Now().Add(-time.Hour), NotAfter: time.Now().Add(48 * time.Hour),
		KeyUsage: x509.KeyUsageDigitalSignature, ExtKeyUsage: []x509.ExtKeyUsage{x509.ExtKeyUsageServerAuth}}
	leafDER, err := x509.CreateCertificate(rand.Reader, leafT, caCert, &leafKey.PublicKey, caKey)
	if err != nil {
		return err
	}
	s.leaf = tls.Certificate{Certificate: [][]byte{leafDER}, PrivateKey: leafKey}
	return nil
}

type tapConn struct {
	net.Conn
	s *Server
}

func (c *tapConn) Read(p []byte) (int, error) {
	n, err := c.Conn.Read(p)
	if n > 0 {
		c.s.mu.Lock()
		c.s.raw.Write(p[:n])
		c.s.mu.Unlock()
	}
	return n, err
}

type tapListener struct {
	net.Listener
	s *Server
}

func (l *tapListener) Accept() (net.Conn, error) {
	c, err := l.Listener.Accept()
	if err != nil {
		return nil, err
	}
	return &tapConn{Conn: c, s: l.s}, nil
}

type oneConnListener struct {
	c    net.Conn
	done chan struct{}
	once sync.Once
}

func (l *oneConnListener) Accept() (net.Conn, error) {
	var c net.Conn
	l.once.Do(func() { c = l.c })
	if c != nil {
		return c, nil
	}
	<-l.done
	return nil, fmt.Errorf("closed")
}
func (l *oneConnListener) Close() error {
	select {
	case <-l.done:
	default:
		close(l.done)
	}
	return nil
}
func (l *oneConnListener) Addr() net.Addr { return l.c.LocalAddr() }

type notifyConn struct {
	net.Conn
	onClose func()
	once    sync.Once
}

func (c *notifyConn) Close() error { c.once.Do(c.onClose); return c.Conn.Close() }

func (s *Server) proxyLoop() {
	for {
		c, err := s.pln.Accept()
		if err != nil {
			return
		}
		go s.proxyConn(c)
	}
}

func (s *Server) proxyConn(c net.Conn) {
	br := bufio.NewReader(c)
	req, err := http.ReadRequest(br)
	if err != nil {
		c.Close()
		return
	}
	// record the preamble as received
	var pre bytes.Buffer
	fmt.Fprintf(&pre, "%s %s %s\r\n", req.Method, req.RequestURI, req.Proto)
	req.Header.Write(&pre)
	s.mu.Lock()
	s.raw.Write(pre.Bytes())
	s.raw.WriteString("\r\n")
	s.mu.Unlock()
	if req.Method != http.MethodConnect {
		s.mu.Lock()
		s.plainProxyReqs = append(s.plainProxyReqs, req.Method+" "+req.RequestURI)
		s.mu.Unlock()
		fmt.Fprintf(c, "HTTP/1.1 502 Bad Gateway\r\nContent-Length: 0\r\n\r\n")
		c.Close()
		return
	}
	s.mu.Lock()
	s.connects = append(s.connects, req.RequestURI)
	s.mu.Unlock()
	fmt.Fprintf(c, "HTTP/1.1 200 Connection Established\r\n\r\n")
	tc := tls.Server(c, &tls.Config{Certificates: []tls.Certificate{s.leaf}, NextProtos: []string{"http/1.1"}})
	if err := tc.Handshake(); err != nil {
		c.Close()
		return
	}
	l := &oneConnListener{done: make(chan struct{})}
	l.c = &notifyConn{Conn: &tapConn{Conn: tc, s: s}, onClose: func() { l.Close() }}
	target := req.RequestURI
	srv := &http.Server{Handler: http.HandlerFunc(func(w http.ResponseWriter, r *http.Request) { s.handle(w, r, target) }), ReadHeaderTimeout: 20 * time.Second}
	srv.Serve(l)
}

// ---------------------------------------------------------------- the API

func (s *Server) record(r *http.Request, connect string) Req {
	s.mu.Lock()
	defer s.mu.Unlock()
	q := Req{Seq: len(s.log), Method: r.Method, Host: r.Host, Path: r.URL.Path, RawQuery: r.URL.RawQuery, Header: r.Header.Clone(), Authorization: r.Header.Get("Authorization"), Connect: connect}
	if r.Body != nil {
		var b bytes.Buffer
		b.ReadFrom(r.Body)
		q.Body = b.Bytes()
	}
	s.log = append(s.log, q)
	return q
}

func echo(r *http.Request) string {
	var sb strings.Builder
	fmt.Fprintf(&sb, "request was: %s %s\n", r.Method, r.URL.String())
	ks := make([]string, 0, len(r.Header))
	for k := range r.Header {
		ks = append(ks, k)
	}
	sort.Strings(ks)
	for _, k := range ks {
		fmt.Fprintf(&sb, "%s: %s\n", k, strings.Join(r.Header[k], ", "))
	}
	return sb.String()
}

func (s *Server) errBody(r *http.Request, msg string) string {
	if s.cfg.EchoBody {
		return msg + "\n" + echo(r)
	}
	return msg
}

func hijackClose(w http.ResponseWriter, rst bool) {
	hj, ok := w.(http.Hijacker)
	if !ok {
		return
	}
	c, _, err := hj.Hijack()
	if err != nil {
		return
	}
	if rst {
		if t, ok := underlyingTCP(c); ok {
			t.SetLinger(0)
		}
	}
	c.Close()
}

func underlyingTCP(c net.Conn) (*net.TCPConn, bool) {
	for i := 0; i < 6; i++ {
		switch t := c.(type) {
		case *net.TCPConn:
			return t, true
		case *tapConn:
			c = t.Conn
		case *notifyConn:
			c = t.Conn
		case *tls.Conn:
			c = t.NetConn()
		default:
			return nil, false
		}
	}
	return nil, false
}

func (s *Server) handle(w http.ResponseWriter, r *http.Request, connect string) {
	s.record(r, connect)
	if s.cfg.OnRequest != nil {
		s.cfg.OnRequest(r.URL.Path)
	}
	auth := s.cfg.Auth
	if auth == "" {
		auth = "digest"
	}
	authed := strings.HasPrefix(r.Header.Get("Authorization"), "Digest ")
	switch {
	case auth == "none":
	case auth == "basic":
		if r.Header.Get("Authorization") == "" {
			w.Header().Set("WWW-Authenticate", `Basic realm="MMS Public API"`)
			http.Error(w, s.errBody(r, "unauthorized"), 401)
			return
		}
		http.Error(w, s.errBody(r, "forbidden"), 403)
		return
	case auth == "malformed":
		w.Header().Set("WWW-Authenticate", `Digest realm=, nonce`)
		http.Error(w, s.errBody(r, "unauthorized"), 401)
		return
	case auth == "always401":
		s.challenge(w)
		http.Error(w, s.errBody(r, "unauthorized"), 401)
		return
	case strings.HasPrefix(auth, "status:"):
		if !authed {
			s.challenge(w)
			http.Error(w, s.errBody(r, "unauthorized"), 401)
			return
		}
		var n int
		fmt.Sscanf(auth, "status:%d", &n)
		http.Error(w, s.errBody(r, fmt.Sprintf("status %d", n)), n)
		return
	default: // digest
		if !authed {
			s.challenge(w)
			http.Error(w, s.errBody(r, "unauthorized"), 401)
			return
		}
	}
	base := "/api/atlas/v2/groups/" + s.cfg.Project + "/clusters/"
	switch {
	case r.URL.Path == base+s.cfg.Cluster:
		if s.fault(w, r, s.cfg.ClusterFault, nil) {
			return
		}
		m := map[string]any{"connectionStrings": map[string]any{"standard": s.cfg.ConnStr, "standardSrv": "mongodb+srv://" + s.cfg.Cluster + ".abcde.mongodb.net"}}
		if s.cfg.ExtraJSON {
			m["name"], m["clusterType"], m["links"] = s.cfg.Cluster, "REPLICASET", []any{map[string]any{"href": "https://cloud.mongodb.com/x", "rel": "self"}}
			m["connectionStrings"].(map[string]any)["private"] = nil
		}
		b, _ := json.Marshal(m)
		w.Header().Set("Content-Type", "application/json")
		w.Write(b)
	case strings.HasPrefix(r.URL.Path, base) && strings.HasSuffix(r.URL.Path, "/logs/mongodb.gz"):
		host := strings.TrimSuffix(strings.TrimPrefix(r.URL.Path, base), "/logs/mongodb.gz")
		body, ok := s.cfg.Payload[host]
		if !ok {
			http.Error(w, s.errBody(r, "no such host"), 404)
			return
		}
		f := s.cfg.Faults[host]
		if f.Once {
			s.mu.Lock()
			if s.faultFired == nil {
				s.faultFired = map[string]bool{}
			}
			if s.faultFired[host] {
				f = Fault{}
			}
			s.faultFired[host] = true
			s.mu.Unlock()
		}
		if s.fault(w, r, f, body) {
			return
		}
		w.Header().Set("Content-Type", "application/gzip")
		if s.cfg.FrontEndGzip[host] && strings.Contains(r.Header.Get("Accept-Encoding"), "gzip") {
			var zb bytes.Buffer
			zw := gzip.NewWriter(&zb)
			zw.Write(body)
			zw.Close()
			w.Header().Set("Content-Encoding", "gzip")
			w.Header().Set("Vary", "Accept-Encoding")
			w.Header().Set("Content-Length", fmt.Sprint(zb.Len()))
			w.Write(zb.Bytes())
			return
		}
		w.Header().Set("Content-Length", fmt.Sprint(len(body)))
		w.Write(body)
	default:
		http.Error(w, s.errBody(r, "not found"), 404)
	}
}

func (s *Server) challenge(w http.ResponseWriter) {
	s.mu.Lock()
	s.nonce++
	n := s.nonce
	s.mu.Unlock()
	qop, alg := "auth", "MD5"
	switch s.cfg.Auth {
	case "digest-qop-list":
		qop = "auth,auth-int"
	case "digest-qop-auth-int":
		qop = "auth-int"
	case "digest-sha256":
		alg = "SHA-256"
	}
	w.Header().Set("WWW-Authenticate", fmt.Sprintf(`Digest realm="MMS Public API", domain="", nonce="n%dQ9yZ3fEw==", algorithm=%s, qop="%s", stale=false`, n, alg, qop))
}

// fault applies f; returns true if the response has been dealt with.
func (s *Server) fault(w http.ResponseWriter, r *http.Request, f Fault, body []byte) bool {
	switch f.Kind {
	case "status":
		if f.Status == 429 || f.Status == 502 || f.Status == 503 || f.Status == 504 {
			w.Header().Set("Retry-After", "0") // a transient refusal: a client that retries may do so at once
		}
		http.Error(w, s.errBody(r, fmt.Sprintf("status %d", f.Status)), f.Status)
		return true
	case "reset":
		hijackClose(w, true)
		return true
	case "slow":
		// a healthy transfer that takes CutAt seconds: the body trickles in 1-second steps
		w.Header().Set("Content-Type", "application/gzip")
		w.Header().Set("Content-Length", fmt.Sprint(len(body)))
		w.WriteHeader(200)
		steps := f.CutAt
		if steps < 1 {
			steps = 1
		}
		for i := 0; i < steps; i++ {
			lo, hi := len(body)*i/steps, len(body)*(i+1)/steps
			w.Write(body[lo:hi])
			if fl, ok := w.(http.Flusher); ok {
				fl.Flush()
			}
			if i < steps-1 {
				time.Sleep(time.Second)
			}
		}
		return true
	case "cut":
		hj, ok := w.(http.Hijacker)
		if !ok {
			return false
		}
		c, bw, err := hj.Hijack()
		if err != nil {
			return true
		}
		n := f.CutAt
		if n > len(body) {
			n = len(body)
		}
		fmt.Fprintf(bw, "HTTP/1.1 200 OK\r\nContent-Type: application/gzip\r\nContent-Length: %d\r\n\r\n", len(body)+1000)
		bw.Write(body[:n])
		bw.Flush()
		c.Close()
		return true
	}
	return false
}
