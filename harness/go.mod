module verif

go 1.23
