//go:build verif

// Coverage-guided fuzz target of the /verif C07 monitor (thorough tier only).
// Copied into a SCRATCH COPY of the repository (never into /repo) as
// src/zz_verif_fuzz_test.go and run with
//   go test -tags verif -run '^$' -fuzz '^FuzzVerifRedact$' -fuzztime <N>x ./src
// A panic anywhere below is the finding; in addition the output of every
// accepted line must be one well-formed JSON value on one line.
package main

import (
	"bytes"
	"encoding/json"
	"os"
	"path/filepath"
	"testing"
)

func FuzzVerifRedact(f *testing.F) {
	files, _ := filepath.Glob(filepath.Join("..", "test_fixtures", "*.json"))
	for _, p := range files {
		b, err := os.ReadFile(p)
		if err != nil {
			continue
		}
		var buf bytes.Buffer
		if json.Compact(&buf, b) == nil {
			for m := uint8(0); m < 6; m++ {
				f.Add(buf.String(), m)
			}
		}
	}
	for _, s := range []string{`{"c":"COMMAND","attr":{"command":{"find":"c","filter":{"a":{"$date":1}}}}}`, `123`, `[]`, `{"c":"WRITE","attr":{"ns":5,"command":{"q":[1],"u":[[{"$set":null}]]}}}`, `{"msg":"Slow query","attr":{"command":{"pipeline":[{"$search":{"compound":{"must":[{"equals":{"value":{"$binary":{"base64":1}}}}]}}}]}}}`} {
		f.Add(s, uint8(3))
	}
	f.Fuzz(func(t *testing.T, line string, mode uint8) {
		SetRedactedString("REDACTED")
		SetRedactNumbers(mode&1 != 0)
		SetRedactBooleans(mode&1 != 0)
		SetRedactIPs(mode&1 != 0)
		SetRedactNamespaces(mode&2 != 0)
		SetEagerRedactionPaths(nil)
		SetRedactedFieldsRegexp("")
		SetShouldEncrypt(false)
		SetEncryptionKey(nil)
		switch mode % 6 {
		case 2:
			SetEagerRedactionPaths([]string{"", "db", "my_db"})
		case 3:
			SetRedactedFieldsRegexp("^(name|ssn|a|foo)$")
		case 4:
			SetShouldEncrypt(true)
			SetEncryptionKey(bytes.Repeat([]byte{7}, 64))
		case 5:
			SetEagerRedactionPaths([]string{""})
			SetShouldEncrypt(true)
			SetEncryptionKey(bytes.Repeat([]byte{7}, 64))
		}
		m, err := RedactMongoLog(line)
		if err != nil {
			return
		}
		out, err := MarshalOrdered(m)
		if err != nil {
			return
		}
		if !json.Valid(out) || bytes.ContainsAny(out, "\r\n") {
			t.Fatalf("output is not one well-formed JSON line: %q", out)
		}
	})
}
