//go:build verif

// In-process agent for the /verif runtime monitors. This file lives in
// /verif/harness/agent and is compiled INTO package main of /repo/src through
// `go test -c -tags verif -overlay …` (mapped to src/zz_verif_agent_test.go);
// it is never copied into the repository. It is a dumb command interpreter:
// all oracles live in the driver. Every command is logged ("begin") and
// flushed before it runs, so a process-fatal error identifies its input.
package main

import (
	"bufio"
	"bytes"
	"context"
	"encoding/base64"
	"encoding/json"
	"errors"
	"fmt"
	"io"
	"net/http"
	"os"
	"path/filepath"
	"strings"
	"syscall"
	"testing"
)

type vaCmd struct {
	Op string `json:"op"`
	// set
	Replacement *string  `json:"replacement,omitempty"`
	Numbers     *bool    `json:"numbers,omitempty"`
	Booleans    *bool    `json:"booleans,omitempty"`
	IPs         *bool    `json:"ips,omitempty"`
	Namespaces  *bool    `json:"namespaces,omitempty"`
	Eager       []string `json:"eager,omitempty"`
	Regexp      *string  `json:"regexp,omitempty"`
	Encrypt     *bool    `json:"encrypt,omitempty"`
	KeyB64      *string  `json:"key_b64,omitempty"` // "" => nil key
	// redact / hash / encrypt
	Lines []string `json:"lines,omitempty"`
	Names []string `json:"names,omitempty"`
	Data  []string `json:"data,omitempty"` // base64
	N     int      `json:"n,omitempty"`
	// stream
	InputB64    string `json:"input_b64,omitempty"`
	Gzip        bool   `json:"gzip,omitempty"`          // go through ProcessMongoLogFile with a mock FileReader and ext .gz
	Chunk       int    `json:"chunk,omitempty"`         // reader chunk size (0 = as asked)
	FailReadAt  int    `json:"fail_read_at,omitempty"`  // k-th Read call fails (1-based; 0 = never)
	FailReadOff int    `json:"fail_read_off,omitempty"` // fail once this many bytes were delivered (-1/0 = never)
	FailMode    string `json:"fail_mode,omitempty"`     // "" the source keeps failing; "once-eof" it fails once, then reports end of input; "once-continue" it fails once, then delivers the rest
	FailWriteAt int    `json:"fail_write_at,omitempty"` // k-th Write call fails (1-based)
	ShortWrite  int    `json:"short_write,omitempty"`   // failing write accepts this many bytes first
	WriteErrno  string `json:"write_errno,omitempty"`   // the failing write returns this errno (EAGAIN EINTR ENOSPC EPIPE EIO) instead of the marker error
	WriteOnce   bool   `json:"write_once,omitempty"`    // only that one Write call fails, later calls succeed (a transient condition)
	FileSink    bool   `json:"file_sink,omitempty"`     // the output is a regular file (seekable, truncatable) whose Write calls fail as configured; "accepted" is then what the FILE holds afterwards
	// atlas
	BaseURL string   `json:"base_url,omitempty"`
	Pub     string   `json:"pub,omitempty"`
	Priv    string   `json:"priv,omitempty"`
	Project string   `json:"project,omitempty"`
	Cluster string   `json:"cluster,omitempty"`
	Start   int      `json:"start,omitempty"`
	End     int      `json:"end,omitempty"`
	Files   []string `json:"files,omitempty"`
	Path    string   `json:"path,omitempty"`
	Kind    string   `json:"kind,omitempty"`
}

type vaFailReader struct {
	data      []byte
	off       int
	calls     int
	chunk     int
	failAt    int
	failOff   int
	delivered int
	mode      string
	failed    bool
}

var errVAInjected = errors.New("verif: injected I/O fault")

func (r *vaFailReader) Read(p []byte) (int, error) {
	r.calls++
	if r.failed && r.mode == "once-eof" {
		return 0, io.EOF
	}
	if !(r.failed && r.mode == "once-continue") {
		if r.failAt > 0 && r.calls >= r.failAt {
			r.failed = true
			return 0, errVAInjected
		}
		if r.failOff > 0 && r.delivered >= r.failOff {
			r.failed = true
			return 0, errVAInjected
		}
	}
	if r.off >= len(r.data) {
		return 0, io.EOF
	}
	n := len(p)
	if r.chunk > 0 && n > r.chunk {
		n = r.chunk
	}
	if r.failOff > 0 && r.delivered+n > r.failOff && !r.failed {
		n = r.failOff - r.delivered
	}
	if n > len(r.data)-r.off {
		n = len(r.data) - r.off
	}
	copy(p, r.data[r.off:r.off+n])
	r.off += n
	r.delivered += n
	return n, nil
}
func (r *vaFailReader) Close() error { return nil }

type vaRecWriter struct {
	calls    [][]byte
	accepted bytes.Buffer
	failAt   int
	short    int
	after    int // writes issued after the first failure
	failed   bool
	errno    string
	once     bool
}

func (w *vaRecWriter) fault() error {
	switch w.errno {
	case "EAGAIN":
		return &os.PathError{Op: "write", Path: "/dev/stdout", Err: syscall.EAGAIN}
	case "EINTR":
		return &os.PathError{Op: "write", Path: "/dev/stdout", Err: syscall.EINTR}
	case "ENOSPC":
		return &os.PathError{Op: "write", Path: "out.log", Err: syscall.ENOSPC}
	case "EPIPE":
		return &os.PathError{Op: "write", Path: "|1", Err: syscall.EPIPE}
	case "EIO":
		return &os.PathError{Op: "write", Path: "out.log", Err: syscall.EIO}
	}
	return errVAInjected
}

func (w *vaRecWriter) Write(p []byte) (int, error) {
	w.calls = append(w.calls, append([]byte(nil), p...))
	if w.failed {
		w.after++
		if !w.once {
			return 0, w.fault()
		}
		// a transient condition: this call is taken (the sink now holds whatever the program sends after the failure)
		w.accepted.Write(p)
		return len(p), nil
	}
	if w.failAt > 0 && len(w.calls) >= w.failAt {
		w.failed = true
		n := w.short
		if n > len(p) {
			n = len(p)
		}
		w.accepted.Write(p[:n])
		return n, w.fault()
	}
	w.accepted.Write(p)
	return len(p), nil
}

// vaFileSink is a regular file (so the program sees Seek / Truncate / Sync / Stat) whose Write calls go
// through the fault-injecting recorder first: what the recorder accepts is written to the file.
type vaFileSink struct {
	*os.File
	rec *vaRecWriter
}

func (s *vaFileSink) Write(p []byte) (int, error) {
	n, err := s.rec.Write(p)
	if n > 0 {
		s.File.Write(p[:n])
	}
	return n, err
}

type vaMockFR struct {
	r   io.ReadCloser
	ext string
}

func (m *vaMockFR) Open(string) (io.ReadCloser, error) { return m.r, nil }
func (m *vaMockFR) GetExtension(string) string         { return m.ext }

func vaTmpList() []string {
	root := os.TempDir()
	names := []string{}
	filepath.WalkDir(root, func(p string, d os.DirEntry, err error) error {
		// files only (at any depth): a private sub-directory is not a downloaded log, what it holds is
		if err == nil && p != root && !d.IsDir() {
			rel, _ := filepath.Rel(root, p)
			names = append(names, rel)
		}
		return nil
	})
	return names
}

func vaB64(b []byte) string { return base64.StdEncoding.EncodeToString(b) }

func vaRun(c *vaCmd) (res map[string]any) {
	res = map[string]any{}
	defer func() {
		if r := recover(); r != nil {
			res["panic"] = fmt.Sprint(r)
		}
	}()
	switch c.Op {
	case "set":
		if c.Replacement != nil {
			SetRedactedString(*c.Replacement)
		}
		if c.Numbers != nil {
			SetRedactNumbers(*c.Numbers)
		}
		if c.Booleans != nil {
			SetRedactBooleans(*c.Booleans)
		}
		if c.IPs != nil {
			SetRedactIPs(*c.IPs)
		}
		if c.Namespaces != nil {
			SetRedactNamespaces(*c.Namespaces)
		}
		if c.Eager != nil {
			SetEagerRedactionPaths(c.Eager)
		}
		if c.Regexp != nil {
			SetRedactedFieldsRegexp(*c.Regexp)
		}
		if c.Encrypt != nil {
			SetShouldEncrypt(*c.Encrypt)
		}
		if c.KeyB64 != nil {
			if *c.KeyB64 == "" {
				SetEncryptionKey(nil)
			} else {
				k, _ := base64.StdEncoding.DecodeString(*c.KeyB64)
				if k == nil {
					k = []byte{}
				}
				SetEncryptionKey(k)
			}
		}
	case "redact":
		outs := make([]any, len(c.Lines))
		for i, l := range c.Lines {
			outs[i] = vaRedactOne(l)
		}
		res["outs"] = outs
	case "hash":
		outs := make([]string, len(c.Names))
		for i, n := range c.Names {
			outs[i] = HashName(n)
		}
		res["outs"] = outs
	case "mapping_size":
		res["n"] = len(RedactedFieldMapping)
	case "poison_mapping":
		for _, n := range c.Names {
			RedactedFieldMapping[n] = "poisoned_" + n
		}
	case "encrypt", "decrypt":
		key, _ := base64.StdEncoding.DecodeString(c.Pub)
		outs := make([]any, len(c.Data))
		for i, d := range c.Data {
			b, err := base64.StdEncoding.DecodeString(d)
			if err != nil {
				outs[i] = map[string]any{"err": "bad b64 input"}
				continue
			}
			var o []byte
			if c.Op == "encrypt" {
				o, err = Encrypt(b, key)
			} else {
				o, err = Decrypt(b, key)
			}
			if err != nil {
				outs[i] = map[string]any{"err": err.Error()}
			} else {
				outs[i] = map[string]any{"out": vaB64(o)}
			}
		}
		res["outs"] = outs
	case "genkey":
		outs := make([]string, c.N)
		for i := range outs {
			k, err := GenerateKey()
			if err != nil {
				res["err"] = err.Error()
				break
			}
			outs[i] = vaB64(k)
		}
		res["outs"] = outs
	case "keyfile_write":
		k, _ := base64.StdEncoding.DecodeString(c.Pub)
		if err := WriteKeyToFile(c.Path, k); err != nil {
			res["err"] = err.Error()
		}
	case "keyfile_read":
		k, err := ReadKeyFromFile(c.Path)
		if err != nil {
			res["err"] = err.Error()
		} else {
			res["out"] = vaB64(k)
		}
	case "stream":
		data, _ := base64.StdEncoding.DecodeString(c.InputB64)
		r := &vaFailReader{data: data, chunk: c.Chunk, failAt: c.FailReadAt, failOff: c.FailReadOff, mode: c.FailMode}
		w := &vaRecWriter{failAt: c.FailWriteAt, short: c.ShortWrite, errno: c.WriteErrno, once: c.WriteOnce}
		var err error
		var sink io.Writer = w
		var sinkFile *os.File
		if c.FileSink {
			if f, ferr := os.CreateTemp("", "verif-sink-*.log"); ferr == nil {
				sinkFile = f
				sink = &vaFileSink{File: f, rec: w}
				defer os.Remove(f.Name())
				defer f.Close()
			}
		}
		if c.Gzip {
			err = ProcessMongoLogFile(&vaMockFR{r: r, ext: ".gz"}, "mock.log.gz", sink, nil)
		} else {
			err = ProcessMongoLogFileFromReader(r, sink, nil)
		}
		if err != nil {
			res["err"] = err.Error()
		}
		calls := make([]string, len(w.calls))
		for i, cb := range w.calls {
			calls[i] = vaB64(cb)
		}
		res["writes"] = calls
		res["accepted"] = vaB64(w.accepted.Bytes())
		if sinkFile != nil {
			// what the regular file holds after the run (the program may have cut it back)
			if b, rerr := os.ReadFile(sinkFile.Name()); rerr == nil {
				res["sink_took"] = vaB64(w.accepted.Bytes())
				res["accepted"] = vaB64(b)
			}
		}
		res["writes_after_failure"] = w.after
		res["read_calls"] = r.calls
		res["read_delivered"] = r.delivered
	case "atlas_download":
		cl := NewAtlasClient(&http.Client{})
		cl.BaseURL = c.BaseURL
		files, err := cl.DownloadClusterLogs(context.Background(), c.Pub, c.Priv, c.Project, c.Cluster, c.Start, c.End)
		if err != nil {
			res["err"] = err.Error()
		}
		res["files"] = files
		var contents []string
		for _, f := range files {
			b, rerr := os.ReadFile(f)
			if rerr != nil {
				contents = append(contents, "ERR:"+rerr.Error())
			} else {
				contents = append(contents, vaB64(b))
			}
		}
		res["contents"] = contents
		res["tmp_after_return"] = vaTmpList()
		if c.N == 1 {
			// the caller's duty on success: delete what was returned
			if derr := cl.DeleteClusterLogs(context.Background(), files); derr != nil {
				res["delete_err"] = derr.Error()
			}
			res["tmp_after_delete"] = vaTmpList()
		}
	case "atlas_delete":
		cl := NewAtlasClient(&http.Client{})
		if err := cl.DeleteClusterLogs(context.Background(), c.Files); err != nil {
			res["err"] = err.Error()
		}
	case "tmpdir_spell":
		// re-spell this process's temporary directory (same directory, non-cleaned path)
		cur := os.TempDir()
		switch c.Kind {
		case "trailing-slash":
			os.Setenv("TMPDIR", cur+"/")
		case "dot-segment":
			os.Setenv("TMPDIR", filepath.Dir(cur)+"/./"+filepath.Base(cur))
		case "double-slash":
			os.Setenv("TMPDIR", filepath.Dir(cur)+"//"+filepath.Base(cur))
		case "symlink":
			l := filepath.Join(filepath.Dir(cur), "tmplink")
			os.Symlink(cur, l)
			os.Setenv("TMPDIR", l)
		}
		res["tmpdir"] = os.TempDir()
	case "tmpdir_list":
		// recursive listing of the process's temporary directory (relative names)
		root := os.TempDir()
		var names []string
		filepath.WalkDir(root, func(p string, d os.DirEntry, err error) error {
			if err == nil && p != root {
				rel, _ := filepath.Rel(root, p)
				names = append(names, rel)
			}
			return nil
		})
		res["tmpdir"] = root
		res["names"] = names
	case "hosts":
		outs := make([]any, len(c.Names))
		for i, n := range c.Names {
			h, err := GetHostsFromConnectionString(n)
			if err != nil {
				outs[i] = map[string]any{"err": err.Error()}
			} else {
				outs[i] = map[string]any{"hosts": h}
			}
		}
		res["outs"] = outs
	case "dates":
		SetAtlasLogStartDate(c.Start)
		SetAtlasLogEndDate(c.End)
		s, e := GetStartAndEndDates()
		res["start"], res["end"] = s, e
	case "vocab":
		seen := map[string]bool{}
		var walk func(m OrderedMap)
		walk = func(m OrderedMap) {
			for el := m.Front(); el != nil; el = el.Next() {
				seen[el.Key] = true
				if sub, ok := el.Value.(OrderedMap); ok && sub != nil {
					walk(sub)
				}
			}
		}
		walk(CoreOperators)
		walk(AggregationOperators)
		walk(SearchOperators)
		walk(SearchAggregationOperators)
		walk(OperatorMapDefs)
		var ks []string
		for k := range seen {
			ks = append(ks, k)
		}
		res["keys"] = ks
	default:
		res["err"] = "unknown op " + c.Op
	}
	return res
}

func vaRedactOne(l string) (out map[string]any) {
	out = map[string]any{}
	defer func() {
		if r := recover(); r != nil {
			out["panic"] = fmt.Sprint(r)
		}
	}()
	m, err := RedactMongoLog(l)
	if err != nil {
		out["err"] = err.Error()
		return
	}
	b, err := MarshalOrdered(m)
	if err != nil {
		out["err"] = "marshal: " + err.Error()
		return
	}
	out["out"] = string(b)
	return
}

func TestVerifAgent(t *testing.T) {
	script := os.Getenv("VERIF_AGENT_SCRIPT")
	outPath := os.Getenv("VERIF_AGENT_OUT")
	if script == "" || outPath == "" {
		t.Skip("verif agent: no script")
	}
	in, err := os.Open(script)
	if err != nil {
		t.Fatal(err)
	}
	defer in.Close()
	of, err := os.Create(outPath)
	if err != nil {
		t.Fatal(err)
	}
	defer of.Close()
	// keep the tool's own chatter ("Downloading…") out of the way
	devnull, _ := os.OpenFile(os.DevNull, os.O_WRONLY, 0)
	realStdout := os.Stdout
	if os.Getenv("VERIF_AGENT_KEEP_STDOUT") == "" {
		os.Stdout = devnull
	}
	defer func() { os.Stdout = realStdout }()
	rd := bufio.NewReaderSize(in, 1<<20)
	enc := func(v any) {
		var sb strings.Builder
		e := json.NewEncoder(&sb)
		e.SetEscapeHTML(false)
		e.Encode(v)
		of.WriteString(sb.String())
	}
	for i := 0; ; i++ {
		line, err := rd.ReadBytes('\n')
		if len(bytes.TrimSpace(line)) > 0 {
			var c vaCmd
			if jerr := json.Unmarshal(line, &c); jerr != nil {
				enc(map[string]any{"ev": "begin", "i": i})
				enc(map[string]any{"ev": "end", "i": i, "err": "bad command: " + jerr.Error()})
			} else {
				enc(map[string]any{"ev": "begin", "i": i, "op": c.Op})
				of.Sync()
				res := vaRun(&c)
				res["ev"] = "end"
				res["i"] = i
				enc(res)
			}
		}
		if err != nil {
			break
		}
	}
}
