package checks

import (
	"bytes"
	"encoding/base64"
	"fmt"
	"math/rand"
	"os"
	"path/filepath"
	"strings"
	"sync"
	"verif/gen"

	"verif/ev"
	"verif/jt"
	"verif/sut"
)

// decryptCLI runs `anonymongo decrypt --decryptionKeyFile k -- value`.
// raw is what follows "Raw value: " (minus the final newline); has reports
// whether such a line was printed at all.
func decryptCLI(s *sut.SUT, dir, keyFile, value string) (raw string, has bool, r sut.Result) {
	// the decrypting process is another process, possibly another build: its version string (ANONYMONGO_VERSION) differs
	r = s.CLI(sut.Run{Args: []string{"decrypt", "--decryptionKeyFile", keyFile, "--", value}, Dir: dir, Env: []string{"ANONYMONGO_VERSION=4." + fmt.Sprint(len(value)%7) + ".0"}})
	const m = "Raw value: "
	i := bytes.Index(r.Stdout, []byte(m))
	if i < 0 {
		return "", false, r
	}
	raw = string(r.Stdout[i+len(m):])
	raw = strings.TrimSuffix(raw, "\n")
	return raw, true, r
}

func randKeyB64(rng *rand.Rand) string {
	k := make([]byte, 64)
	rng.Read(k)
	return base64.StdEncoding.EncodeToString(k)
}

func b64(s []byte) string { return base64.StdEncoding.EncodeToString(s) }

func c09Strings(rng *rand.Rand, n int) []string {
	planes := [][2]rune{{0x20, 0x7e}, {0xa0, 0x24f}, {0x400, 0x4ff}, {0x4e00, 0x9fff}, {0x1f300, 0x1f6ff}, {0x10000, 0x1ffff}, {0x1, 0x1f}, {0xe000, 0xf8ff}, {0x2028, 0x2029}, {0xf0000, 0xffffd}}
	out := []string{"", " ", "\n", "\x00", "a", "AAAA", "QUJD", "e30=", `{"a":1}`, `"`, `\`, "Raw value: x", "\nRaw value: y\n", "null", "REDACTED", "redacted@redacted.com", "1970-01-01T00:00:00.000Z", strings.Repeat("x", 8192), strings.Repeat("😀", 2048), "trailing space ", " leading", "tab\t", "\r\n", "--help", "-"}
	for len(out) < n {
		l := []int{0, 1, 2, 3, 7, 15, 16, 17, 31, 32, 33, 63, 64, 65, 100, 255, 256, 1000, 4096, 8192}[rng.Intn(20)]
		if rng.Intn(3) == 0 {
			l = rng.Intn(300)
		}
		var sb strings.Builder
		pl := planes[rng.Intn(len(planes))]
		for sb.Len() < l {
			if rng.Intn(4) == 0 {
				pl = planes[rng.Intn(len(planes))]
			}
			r := pl[0] + rune(rng.Int63n(int64(pl[1]-pl[0]+1)))
			if r >= 0xd800 && r <= 0xdfff {
				continue
			}
			sb.WriteRune(r)
		}
		out = append(out, sb.String())
	}
	return out
}

// C09: encrypted values decrypt back to exactly the original.
func C09() int {
	s, c, g, ok := setup("C09", "exploration")
	if !ok {
		return c.Finish("build failed")
	}
	defer s.Close()
	rng := rand.New(rand.NewSource(c.Seed*131 + 9))
	nkeys := pickN(c, 8, 64)
	keys := []string{b64(bytes.Repeat([]byte{0}, 64)), b64(bytes.Repeat([]byte{0xff}, 64)), TestKeyB64}
	for len(keys) < nkeys {
		keys = append(keys, randKeyB64(rng))
	}

	// ---------------- (1) end to end: redact --encrypt, then decrypt per leaf
	g.LongMax = 4000
	items := CoreCorpus(g, pickN(c, 600, 6000))
	{
		// every other line takes some values from pools of near-duplicates (case, padding, trailing
		// NULs, homoglyphs, long values): a round trip must give back exactly THIS spelling
		tok := g.Token()
		pool := []string{"Alice" + tok, "alice" + tok, "Alice" + tok + " ", "Alice" + tok + "\x00", "Alice" + tok + "\x00\x00", "\x00", "ab", "ab\x00", "ab\x00\x00", "", "é" + tok, "é" + tok, tok + strings.Repeat("L", 16385), tok + strings.Repeat("M", 30000)}
		epool := []string{"bob" + tok + "@example.com", "bob" + tok + "@Example.COM", "Bob" + tok + "@example.com"}
		for i := 1; i < len(items); i += 2 {
			t2 := dupify(rng, items[i].Tree, pool, epool)
			if raw := t2.Bytes(jt.Plain); len(raw) < 60000 {
				items[i].Tree, items[i].Raw = t2, raw
			}
		}
	}
	// one literal per control / format code point (C0, DEL, C1 incl. the 8-bit CSI/OSC introducers,
	// bidi and zero-width marks, line separators, BOM, private use, last code point): what `decrypt`
	// prints must be exactly these characters, not a sanitised spelling of them
	{
		var cps []rune
		for r := rune(0); r <= 0x1f; r++ {
			cps = append(cps, r)
		}
		for r := rune(0x7f); r <= 0xa0; r++ {
			cps = append(cps, r)
		}
		cps = append(cps, 0xad, 0x200b, 0x200e, 0x202e, 0x2028, 0x2029, 0xfeff, 0xfffd, 0xe000, 0x1f600, 0x10ffff)
		for lo := 0; lo < len(cps); lo += 12 {
			f := jt.ObjN()
			for k := lo; k < lo+12 && k < len(cps); k++ {
				tok := g.Token()
				v := jt.StrN(tok[:5] + string(cps[k]) + "[31m" + tok[5:]).With(&jt.Tag{Role: jt.Sens, Class: "ctrl", Slot: "ctrl-char"})
				f.Set(fmt.Sprintf("cp%04x", cps[k]), v)
			}
			cmd := jt.ObjN("find", jt.StrN("c"), "filter", f, "$db", jt.StrN("dbctrl"))
			cs := g.Case(gen.CaseOpts{Verb: "find", Carrier: "command", Comp: "COMMAND", DB: "dbctrl", Coll: "c", Cmd: cmd})
			items = append(items, mkItem(cs, 0)) // plain style: the characters themselves, only mandatory escapes
		}
		c.Set("control_and_format_code_points_planted", len(cps))
	}
	budget := pickN(c, 450, 5000)
	type leaf struct {
		key          int
		plain, ct    string
		class, where string
		item         int
	}
	var mu sync.Mutex
	var leaves, leaves2 []leaf
	perKey := (len(items) + len(keys) - 1) / len(keys)
	parallelDo(len(keys), func(ki int) {
		lo, hi := ki*perKey, (ki+1)*perKey
		if lo >= len(items) {
			return
		}
		if hi > len(items) {
			hi = len(items)
		}
		dir := s.TempDir("c09")
		defer os.RemoveAll(dir)
		kf := filepath.Join(dir, "k.key")
		os.WriteFile(kf, []byte(keys[ki]), 0o600)
		in := filepath.Join(dir, "in.log")
		var buf bytes.Buffer
		for _, it := range items[lo:hi] {
			buf.Write(it.Raw)
			buf.WriteByte('\n')
		}
		os.WriteFile(in, buf.Bytes(), 0o644)
		outp := filepath.Join(dir, "out.log")
		r := s.CLI(sut.Run{Args: []string{"redact", "--encrypt", "-q", kf, "-o", outp, in}, Dir: dir})
		ob, _ := os.ReadFile(outp)
		ols := splitLines(ob)
		if r.Exit != 0 || len(ols) != hi-lo {
			c.Violation("encrypt-run-failed", fmt.Sprintf("redact --encrypt exit %d, %d output lines for %d input lines: %s", r.Exit, len(ols), hi-lo, short(r.Stderr, 300)), map[string]any{"input": buf.String()})
			return
		}
		// second pass over the FIRST pass's output with the same key file: at the sensitive positions
		// the input now holds base64 text (the first pass's ciphertexts); they are string literals like
		// any other and must come out as ciphertexts that decrypt to exactly that base64 text
		// (ciphertexts are longer than plaintexts: a first-pass line may lie beyond the reader's line
		// limit — known finding F1 of C19 — and cannot be fed back; only the others are)
		out2p, in2p := filepath.Join(dir, "out2.log"), filepath.Join(dir, "pass1-lines-below-the-reader-limit.log")
		var fed []int
		var in2 bytes.Buffer
		for i, l := range ols {
			if len(l) < 60000 {
				fed = append(fed, i)
				in2.Write(l)
				in2.WriteByte('\n')
			} else {
				c.Count("first_pass_lines_too_long_to_feed_back", 1)
			}
		}
		os.WriteFile(in2p, in2.Bytes(), 0o644)
		r2 := s.CLI(sut.Run{Args: []string{"redact", "--encrypt", "-q", kf, "-o", out2p, in2p}, Dir: dir})
		ob2, _ := os.ReadFile(out2p)
		ols2 := splitLines(ob2)
		if r2.Exit != 0 || len(ols2) != len(fed) {
			c.Violation("second-pass-failed", fmt.Sprintf("redact --encrypt over its own output: exit %d, %d lines for %d: %s", r2.Exit, len(ols2), len(fed), short(bytes.TrimSpace(r2.Stderr), 160)), map[string]any{"input": in2.String()})
		} else {
			for k, i := range fed {
				t1, e1 := jt.ParseObject(ols[i])
				t2, e2 := jt.ParseObject(ols2[k])
				if e1 != nil || e2 != nil {
					continue
				}
				walk3(nil, items[lo+i].Tree, t1, t2, func(path []string, in, p1, p2 *jt.Node, mism string) {
					if mism != "" || in.T == nil || in.T.Role != jt.Sens || in.K != jt.Str || p1.K != jt.Str || p2.K != jt.Str || lo+i >= len(items) {
						return
					}
					mu.Lock()
					leaves2 = append(leaves2, leaf{ki, p1.S, p2.S, "second-pass", jt.PathStr(path), lo + i})
					mu.Unlock()
				})
			}
		}
		for i, ol := range ols {
			t, err := jt.ParseObject(ol)
			if err != nil {
				c.Violation("bad-json", "encrypt-mode output is not one JSON object: "+err.Error(), map[string]any{"kind": "redact-line", "flags": []string{"--encrypt", "-q", "KEYFILE"}, "input": string(items[lo+i].Raw), "output": string(ol)})
				continue
			}
			WalkTagged(items[lo+i].Tree, t, false, func(o TObs) {
				if o.Mismatch != "" {
					// the output has another shape here: the sensitive strings below this node have no
					// counterpart that could decrypt back to them
					lost := 0
					o.In.Walk(nil, func(_ []string, n *jt.Node) {
						if n.T != nil && n.T.Role == jt.Sens && n.K == jt.Str {
							lost++
						}
					})
					if lost > 0 {
						c.Violation("no-counterpart|"+opSig(o.Path), fmt.Sprintf("%d sensitive string(s) below %s have no counterpart in the --encrypt output (shape differs: %s)", lost, jt.PathStr(o.Path), o.Mismatch),
							map[string]any{"kind": "redact-line", "flags": []string{"--encrypt", "-q", "KEYFILE"}, "input": string(items[lo+i].Raw), "output": string(ol)})
					}
					return
				}
				if o.Tag == nil || !o.Own || o.Tag.Role != jt.Sens || o.In.K != jt.Str {
					return
				}
				mu.Lock()
				leaves = append(leaves, leaf{ki, o.In.S, o.Out.S, o.Tag.Class, jt.PathStr(o.Path), lo + i})
				mu.Unlock()
			})
		}
	})
	optionHistory(s, c, items)
	c.Set("sensitive_string_leaves_in_encrypt_output", len(leaves))
	c.Set("second_pass_leaves", len(leaves2))
	leaves = append(leaves, leaves2...)
	// all leaves: in-process bulk decrypt through the agent; sample: CLI decrypt
	byKey := map[int][]int{}
	for i, l := range leaves {
		byKey[l.key] = append(byKey[l.key], i)
	}
	var cmds []sut.AgentCmd
	var cmdKey []int
	for ki := range keys {
		idx := byKey[ki]
		if len(idx) == 0 {
			continue
		}
		data := make([]string, len(idx))
		for j, li := range idx {
			raw, err := base64.StdEncoding.DecodeString(leaves[li].ct)
			if err != nil {
				c.Violation("ciphertext-not-base64|"+leaves[li].class, fmt.Sprintf("encrypt-mode leaf at %s is %q: not standard base64", leaves[li].where, trunc(leaves[li].ct, 80)), map[string]any{"kind": "redact-line", "flags": []string{"--encrypt", "-q", "KEYFILE"}, "input": string(items[leaves[li].item].Raw)})
				raw = nil
			}
			data[j] = b64(raw)
		}
		cmds = append(cmds, sut.AgentCmd{"op": "decrypt", "pub": keys[ki], "data": data})
		cmdKey = append(cmdKey, ki)
	}
	if len(cmds) > 0 {
		recs, crashed, res, err := s.Agent(cmds, nil, 0)
		if err != nil || crashed >= 0 {
			c.Inconclusive("agent decrypt failed: " + short(res.Stderr, 200))
		} else {
			for ci, rec := range recs {
				outs, _ := rec["outs"].([]any)
				for j, li := range byKey[cmdKey[ci]] {
					l := leaves[li]
					m, _ := outs[j].(map[string]any)
					pt, _ := m["out"].(string)
					raw, _ := base64.StdEncoding.DecodeString(pt)
					c.Count("leaves_decrypted_in_process", 1)
					c.Count("class_"+l.class, 1)
					if m["err"] != nil || string(raw) != l.plain {
						c.Violation("roundtrip|"+l.class, fmt.Sprintf("leaf at %s: planted %q, encrypt mode emitted %q, which decrypts to %q (err %v)", l.where, trunc(l.plain, 60), trunc(l.ct, 60), trunc(string(raw), 60), m["err"]),
							map[string]any{"kind": "redact-line", "flags": []string{"--encrypt", "-q", "KEYFILE"}, "input": string(items[l.item].Raw), "key_b64": keys[l.key]})
					}
				}
			}
		}
	}
	// CLI decrypt on a sample (prefers distinct classes and odd contents)
	perm := rng.Perm(len(leaves))
	if len(perm) > budget {
		perm = perm[:budget]
	}
	for i, l := range leaves {
		if l.class == "ctrl" { // every control-character literal goes through the decrypt command
			perm = append(perm, i)
		}
	}
	kdir := s.TempDir("c09keys")
	for ki, k := range keys {
		os.WriteFile(filepath.Join(kdir, fmt.Sprintf("k%d.key", ki)), []byte(k), 0o600)
	}
	parallelDo(len(perm), func(pi int) {
		l := leaves[perm[pi]]
		raw, has, r := decryptCLI(s, kdir, filepath.Join(kdir, fmt.Sprintf("k%d.key", l.key)), l.ct)
		c.Count("cli_decrypt_roundtrips", 1)
		c.Eval("rt|" + l.ct)
		if r.TimedOut {
			c.Inconclusive("watchdog")
			return
		}
		if r.Exit != 0 || !has || raw != l.plain {
			c.Violation("cli-roundtrip|"+l.class, fmt.Sprintf("decrypt of the value emitted at %s: exit %d, printed %q, planted %q; stderr %s", l.where, r.Exit, trunc(raw, 80), trunc(l.plain, 80), short(r.Stderr, 200)),
				map[string]any{"kind": "redact-line", "flags": []string{"--encrypt", "-q", "KEYFILE"}, "input": string(items[l.item].Raw), "key_b64": keys[l.key], "ciphertext": l.ct})
		}
		if pi < 3 {
			c.Sample(map[string]any{"leaf": l.where, "planted": trunc(l.plain, 80), "emitted": trunc(l.ct, 80), "decrypt_prints": trunc(raw, 80)})
		}
	})

	// ---------------- (2) library: arbitrary strings × keys, corruption, truncation, wrong key
	strs := c09Strings(rng, pickN(c, 1500, 12000))
	data := make([]string, len(strs))
	for i, x := range strs {
		data[i] = b64([]byte(x))
	}
	var enc []sut.AgentCmd
	for _, k := range keys {
		enc = append(enc, sut.AgentCmd{"op": "encrypt", "pub": k, "data": data})
	}
	recs, crashed, res, err := s.Agent(enc, nil, 0)
	if err != nil || crashed >= 0 {
		c.Inconclusive("agent encrypt failed: " + short(res.Stderr, 200))
		return c.Finish("agent failed")
	}
	cts := make([][]string, len(keys)) // [key][string] -> b64 ciphertext
	for ki, rec := range recs {
		outs, _ := rec["outs"].([]any)
		cts[ki] = make([]string, len(strs))
		for i := range strs {
			m, _ := outs[i].(map[string]any)
			cts[ki][i], _ = m["out"].(string)
			if m["err"] != nil {
				c.Violation("encrypt-error", fmt.Sprintf("Encrypt(%q) failed with a 64-byte key: %v", trunc(strs[i], 40), m["err"]), nil)
			}
		}
	}
	var dec []sut.AgentCmd
	for ki, k := range keys {
		dec = append(dec, sut.AgentCmd{"op": "decrypt", "pub": k, "data": cts[ki]})
	}
	// wrong key: ciphertexts of key i under key i+1
	for ki := range keys {
		dec = append(dec, sut.AgentCmd{"op": "decrypt", "pub": keys[(ki+1)%len(keys)], "data": cts[ki][:200]})
	}
	// corruption: every byte position × 3 masks, every truncation length, for
	// nCorr ciphertexts of assorted lengths
	nCorr := pickN(c, 24, 120)
	type corr struct {
		ki, si int
		what   string
	}
	var corrMeta []corr
	var corrData []string
	var corrKeyOf []int
	for n := 0; n < nCorr; n++ {
		ki, si := n%len(keys), (n*37)%len(strs)
		if len(strs[si]) > 600 {
			si = n % 24
			if len(strs[si]) > 600 {
				si = 4
			}
		}
		raw, _ := base64.StdEncoding.DecodeString(cts[ki][si])
		for pos := range raw {
			for _, mask := range []byte{0x01, 0x80, 0xff} {
				m := append([]byte{}, raw...)
				m[pos] ^= mask
				corrData = append(corrData, b64(m))
				corrMeta = append(corrMeta, corr{ki, si, fmt.Sprintf("byte %d xor %#02x", pos, mask)})
				corrKeyOf = append(corrKeyOf, ki)
			}
		}
		for l := 0; l < len(raw); l++ {
			corrData = append(corrData, b64(raw[:l]))
			corrMeta = append(corrMeta, corr{ki, si, fmt.Sprintf("truncated to %d of %d bytes", l, len(raw))})
			corrKeyOf = append(corrKeyOf, ki)
		}
		ext := append(append([]byte{}, raw...), 0)
		corrData = append(corrData, b64(ext))
		corrMeta = append(corrMeta, corr{ki, si, "one zero byte appended"})
		corrKeyOf = append(corrKeyOf, ki)
	}
	corrStart := len(dec)
	for ki, k := range keys {
		var d []string
		for j := range corrData {
			if corrKeyOf[j] == ki {
				d = append(d, corrData[j])
			}
		}
		dec = append(dec, sut.AgentCmd{"op": "decrypt", "pub": k, "data": d})
	}
	drecs, crashed, res, err := s.Agent(dec, nil, 0)
	if err != nil || crashed >= 0 {
		c.Inconclusive("agent decrypt failed: " + short(res.Stderr, 200))
		return c.Finish("agent failed")
	}
	for ki := range keys {
		outs, _ := drecs[ki]["outs"].([]any)
		for i := range strs {
			m, _ := outs[i].(map[string]any)
			pt, _ := m["out"].(string)
			raw, _ := base64.StdEncoding.DecodeString(pt)
			c.Count("library_roundtrips", 1)
			c.Eval("lib|" + cts[ki][i])
			if m["err"] != nil || string(raw) != strs[i] {
				c.Violation("lib-roundtrip", fmt.Sprintf("Decrypt(Encrypt(%q)) = %q, err %v (key %d)", trunc(strs[i], 50), trunc(string(raw), 50), m["err"], ki), map[string]any{"plain_b64": data[i], "key_b64": keys[ki]})
			}
		}
		outs, _ = drecs[len(keys)+ki]["outs"].([]any)
		for i, o := range outs {
			m, _ := o.(map[string]any)
			c.Count("wrong_key_attempts", 1)
			if m["err"] == nil {
				c.Violation("wrong-key-accepted", fmt.Sprintf("ciphertext of %q under key %d decrypts without error under key %d", trunc(strs[i], 40), ki, (ki+1)%len(keys)), map[string]any{"plain_b64": data[i]})
			}
		}
	}
	for ki := range keys {
		outs, _ := drecs[corrStart+ki]["outs"].([]any)
		j := 0
		for x := range corrData {
			if corrKeyOf[x] != ki {
				continue
			}
			m, _ := outs[j].(map[string]any)
			j++
			c.Count("corrupted_ciphertexts_tried", 1)
			if m["err"] == nil {
				cm := corrMeta[x]
				c.Violation("corruption-accepted", fmt.Sprintf("ciphertext of %q (%s) decrypts without error to %v", trunc(strs[cm.si], 40), cm.what, m["out"]), map[string]any{"ciphertext_b64": corrData[x], "key_b64": keys[ki]})
			}
		}
	}
	c.Set("ciphertexts_corrupted_at_every_byte", nCorr)

	// ---------------- (3) CLI decrypt must fail on wrong key / edited text
	c09CLINegatives(s, c, rng, kdir, keys, cts, strs)

	c.Set("keys", len(keys))
	raceVerdict(s, c)
	if c.Counter("cli_decrypt_roundtrips") < 400 || c.Counter("library_roundtrips") < 10000 {
		c.Inconclusive("too few round trips observed")
	}
	c.Assume("a 'string that placeholder mode would have replaced' is a string leaf the generator tags SENS (DESIGN Appendix A)")
	return c.Finish("grammar lines through `redact --encrypt -q k -o out`, every sensitive string leaf of the output decrypted in-process and a sample through one `decrypt` process per leaf, compared with the planted value; arbitrary strings (length 0..8 KiB, all planes, control characters, base64-/JSON-looking) × keys through Encrypt/Decrypt; every single-byte XOR position (3 masks), every truncation and a 1-byte extension of sampled ciphertexts, and wrong keys, must be rejected both by Decrypt and by the decrypt command")
}

func c09CLINegatives(s *sut.SUT, c *ev.Check, rng *rand.Rand, kdir string, keys []string, cts [][]string, strs []string) {
	type neg struct {
		key  int
		val  string
		what string
		cwd  string // working directory of the decrypt run ("" = the key directory)
	}
	// what the default workflow (`redact --encrypt in -o out`, no -q) leaves behind: a directory whose
	// anonymongo.enc.key IS the key a value was encrypted with. Decrypting there with ANOTHER key named
	// on the command line must fail all the same.
	for ki := range keys {
		d := filepath.Join(kdir, fmt.Sprintf("cwd%d", ki))
		os.MkdirAll(d, 0o755)
		if b, err := os.ReadFile(filepath.Join(kdir, fmt.Sprintf("k%d.key", ki))); err == nil {
			os.WriteFile(filepath.Join(d, "anonymongo.enc.key"), b, 0o600)
		}
	}
	var negs []neg
	for i := 0; i < 40; i++ {
		ki, si := i%len(keys), rng.Intn(len(strs))
		ct := cts[ki][si]
		if len(ct) > 2000 {
			continue
		}
		negs = append(negs, neg{(ki + 1) % len(keys), ct, "wrong key", ""})
		negs = append(negs, neg{(ki + 1) % len(keys), ct, "wrong key named, the right key is ./anonymongo.enc.key", filepath.Join(kdir, fmt.Sprintf("cwd%d", ki))})
		// character-level edits of the base64 text
		b := []byte(ct)
		p := rng.Intn(len(b))
		e := append([]byte{}, b...)
		if e[p] == 'A' {
			e[p] = 'B'
		} else if e[p] != '=' {
			e[p] = 'A'
		} else {
			e[p] = 'Q'
		}
		// an edit that only touches the unused trailing bits of the last quantum
		// decodes to the SAME ciphertext bytes: not an altered ciphertext
		if d0, e0 := base64.StdEncoding.DecodeString(ct); e0 == nil {
			if d1, e1 := base64.StdEncoding.DecodeString(string(e)); e1 != nil || !bytes.Equal(d0, d1) {
				negs = append(negs, neg{ki, string(e), fmt.Sprintf("base64 character %d replaced", p), ""})
			}
		}
		if len(b) > 4 {
			negs = append(negs, neg{ki, string(b[:len(b)-4]), "last base64 quantum removed", ""})
			negs = append(negs, neg{ki, string(b[4:]), "first base64 quantum removed", ""})
		}
		negs = append(negs, neg{ki, strings.NewReplacer("+", "-", "/", "_").Replace(ct) + "!", "not base64", ""})
	}
	parallelDo(len(negs), func(i int) {
		n := negs[i]
		dir := kdir
		if n.cwd != "" {
			dir = n.cwd
			c.Count("cli_negative_decrypts_next_to_the_right_key", 1)
		}
		raw, has, r := decryptCLI(s, dir, filepath.Join(kdir, fmt.Sprintf("k%d.key", n.key)), n.val)
		c.Count("cli_negative_decrypts", 1)
		if r.TimedOut {
			c.Inconclusive("watchdog")
			return
		}
		if r.Exit == 0 || has {
			c.Violation("cli-accepts-bad-ciphertext|"+strings.Fields(n.what)[0], fmt.Sprintf("decrypt (%s): exit %d, printed Raw value %q", n.what, r.Exit, trunc(raw, 60)), map[string]any{"value": n.val, "key_b64": keys[n.key]})
		}
		if len(bytes.TrimSpace(r.Stderr)) == 0 && r.Exit != 0 {
			c.Count("cli_negative_without_message", 1)
		}
	})
}
