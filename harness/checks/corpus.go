package checks

import (
	"fmt"
	"hash/fnv"
	"math/rand"
	"sync"

	"verif/ev"
	"verif/gen"
	"verif/jt"
	"verif/sut"
)

// Item is one generated case serialised for the CLI.
type Item struct {
	Case *gen.Case
	Tree *jt.Node
	Raw  []byte
	Kind string // "" grammar case, or "soup" / "probe:<zone>" / "other"
}

func (it Item) Label() string {
	if it.Case != nil {
		return it.Case.Verb
	}
	return it.Kind
}

func rawItem(kind string, tree *jt.Node, i int) Item {
	st := []jt.Style{jt.Plain, jt.Plain, jt.GoLike, jt.Unicode, jt.Spaced}[i%5]
	return Item{Tree: tree, Raw: tree.Bytes(st), Kind: kind}
}

// Vocabulary: driver list ∪ keys dumped from the tool's operator tables.
func Vocabulary(s *sut.SUT, c *ev.Check) []string {
	recs, crashed, _, err := s.Agent([]sut.AgentCmd{{"op": "vocab"}}, nil, 0)
	var extra []string
	if err == nil && crashed < 0 && len(recs) == 1 {
		if ks, ok := recs[0]["keys"].([]any); ok {
			for _, k := range ks {
				if ks, ok := k.(string); ok {
					extra = append(extra, ks)
				}
			}
		}
	}
	if len(extra) == 0 {
		c.Inconclusive("could not dump the tool's operator vocabulary through the agent")
	}
	v := gen.MergeVocab(extra)
	c.Set("vocabulary_size", len(v))
	c.Set("vocabulary_from_tool_tables", len(extra))
	return v
}

func mkItem(cs *gen.Case, i int) Item {
	st := []jt.Style{jt.Plain, jt.Plain, jt.GoLike, jt.Unicode, jt.Plain, jt.Spaced, jt.GoLike}[i%7]
	return Item{Case: cs, Tree: cs.Line, Raw: cs.Line.Bytes(st)}
}

// CoreCorpus generates n grammar cases cycling systematically through
// verb × carrier × component so that every combination is seen.
func CoreCorpus(g *gen.Gen, n int) []Item {
	items := make([]Item, 0, n)
	// the systematic slot × class catalogue first (one repetition per 2 500
	// requested lines, at least one), then random grammar cases
	for ci, cs := range g.Catalogue(1 + n/2500) {
		items = append(items, mkItem(cs, ci))
	}
	if n >= 1500 {
		for ci, cs := range g.SearchCatalogue([]string{"name", "address.city"}) {
			items = append(items, mkItem(cs, ci))
		}
		for ci, cs := range g.KeywordCatalogue() {
			items = append(items, mkItem(cs, ci))
		}
	}
	// getMore lines that share namespace AND cursor id but carry different originating commands
	// (logs of several nodes merged into one file; a restarted server re-issuing cursor ids):
	// nothing keyed on (ns, cursor) may be carried from one line to the next
	for fam := 0; fam < 3; fam++ {
		db, coll := "dbgm"+fmt.Sprint(fam), "collgm"+fmt.Sprint(fam)
		for k := 0; k < 6; k++ {
			v := []string{"find", "aggregate", "find", "aggregate", "find", "aggregate"}[k]
			cs := g.Case(gen.CaseOpts{Verb: v, Carrier: "originatingCommand", Comp: gen.Comps[k%3], DB: db, Coll: coll})
			items = append(items, mkItem(cs, k))
		}
	}
	i := 0
	for len(items) < n || i < n/2 {
		v := gen.Verbs[i%len(gen.Verbs)]
		car := gen.Carriers[(i/len(gen.Verbs))%len(gen.Carriers)]
		comp := gen.Comps[(i/(len(gen.Verbs)*len(gen.Carriers)))%len(gen.Comps)]
		if car == "cmd" && comp == "OTHER" {
			// an error report of another component is not a "command, query
			// or write" line and its msg is not "Slow query": outside C01.
			comp = "QUERY"
		}
		cs := g.Case(gen.CaseOpts{Verb: v, Carrier: car, Comp: comp})
		items = append(items, mkItem(cs, i))
		i++
	}
	return items
}

// Seen is one observation handed to an oracle.
type Seen struct {
	Item    Item
	Flags   Flags
	Variant int
	Res     LineOut
	Out     *jt.Node // nil if the output did not parse strictly as one object
	OutErr  error
}

// RunCorpus runs items under every flag set (in chunks, on all cores) and
// hands each (item, flags, output) to visit. visit may be called
// concurrently.
func RunCorpus(s *sut.SUT, items []Item, fsets []Flags, chunk int, visit func(Seen)) {
	type job struct {
		fi, lo, hi int
	}
	var jobs []job
	for fi := range fsets {
		for lo := 0; lo < len(items); lo += chunk {
			hi := lo + chunk
			if hi > len(items) {
				hi = len(items)
			}
			jobs = append(jobs, job{fi, lo, hi})
		}
	}
	// hash of the output each (flag set, item) gave inside its chunk
	hashes := make([][]uint64, len(fsets))
	for fi := range hashes {
		hashes[fi] = make([]uint64, len(items))
	}
	parallelDo(len(jobs), func(j int) {
		jb := jobs[j]
		lines := make([][]byte, 0, jb.hi-jb.lo)
		for _, it := range items[jb.lo:jb.hi] {
			lines = append(lines, it.Raw)
		}
		variant := jb.fi + jb.lo/chunk
		outs := RunLines(s, fsets[jb.fi], variant, lines)
		for k, o := range outs {
			sn := Seen{Item: items[jb.lo+k], Flags: fsets[jb.fi], Variant: variant, Res: o}
			if o.Out != nil {
				sn.Out, sn.OutErr = jt.ParseObject(o.Out)
			}
			hashes[jb.fi][jb.lo+k] = outHash(o)
			visit(sn)
		}
	})
	if WholeRuns == 0 || len(items) < 2*chunk {
		return
	}
	// Second arrangement: the whole corpus through ONE process per flag set, in
	// another order (even flag sets: catalogue order, so every operator path has
	// been walked before the keyword-named user fields come; odd ones: shuffled).
	// Every output is judged again by the caller's oracle, and it must equal what
	// the same line gave inside its chunk: process-wide caches, memo tables and
	// other state carried from line to line show up as a difference.
	nw := len(fsets)
	if WholeRuns > 0 && WholeRuns < nw {
		nw = WholeRuns
	}
	parallelDo(nw, func(fi int) {
		order := make([]int, len(items))
		for i := range order {
			order[i] = i
		}
		if fi%2 == 1 {
			r := rand.New(rand.NewSource(int64(fi)*7919 + int64(len(items))))
			r.Shuffle(len(order), func(a, b int) { order[a], order[b] = order[b], order[a] })
		}
		lines := make([][]byte, len(order))
		for k, i := range order {
			lines[k] = items[i].Raw
		}
		outs := RunLines(s, fsets[fi], 100000+fi, lines)
		for k, o := range outs {
			i := order[k]
			sn := Seen{Item: items[i], Flags: fsets[fi], Variant: 100000 + fi, Res: o}
			if o.Out != nil {
				sn.Out, sn.OutErr = jt.ParseObject(o.Out)
			}
			if h := outHash(o); h != hashes[fi][i] {
				noteContextDiff(fsets[fi], items[i].Raw, o)
			}
			wholeMu.Lock()
			wholeLines++
			wholeMu.Unlock()
			visit(sn)
		}
	})
}

// WholeRuns: for how many of the flag sets RunCorpus adds the one-process
// arrangement (-1 = all, 0 = none).
var WholeRuns = -1

var (
	wholeMu      sync.Mutex
	wholeLines   int
	contextDiffs []batchAnomaly
	contextDiffN int
)

func outHash(o LineOut) uint64 {
	h := fnv.New64a()
	h.Write(o.Out)
	if o.Out == nil {
		h.Write([]byte("\x00none"))
	}
	if o.Crash != "" {
		h.Write([]byte("\x00crash"))
	}
	return h.Sum64()
}

func noteContextDiff(f Flags, line []byte, o LineOut) {
	wholeMu.Lock()
	defer wholeMu.Unlock()
	contextDiffN++
	if len(contextDiffs) < 5 {
		contextDiffs = append(contextDiffs, batchAnomaly{f, string(line), "a line's output inside a whole-corpus run differs from its output inside a 200-line chunk (same flags, same binary): the result depends on the lines processed before it; whole-run output: " + short(o.Out, 400)})
	}
}

// replayOf builds the replay record for a case.
func replayOf(sn Seen, extra map[string]any) map[string]any {
	m := map[string]any{
		"kind":   "redact-line",
		"flags":  sn.Flags.Args(0, "KEYFILE"),
		"input":  string(sn.Item.Raw),
		"output": string(sn.Res.Out),
	}
	if sn.Res.Crash != "" {
		m["crash"] = sn.Res.Crash
	}
	for k, v := range extra {
		m[k] = v
	}
	return m
}

// basicOutcome reports crash / missing / unparseable output as violations of
// property id (used by C01–C05: a line that produces no well-formed output
// cannot be judged, and the grammar only produces lines the tool must accept).
// Returns false if the observation cannot be judged further.
func basicOutcome(c *ev.Check, sn Seen, judgeHere bool) bool {
	if sn.Res.Timeout {
		c.Inconclusive("watchdog fired on a CLI run")
		return false
	}
	if sn.Res.Crash != "" || sn.Res.Out == nil || sn.OutErr != nil {
		if judgeHere {
			what := "no output line"
			kind := "no-output"
			if sn.Res.Crash != "" {
				what, kind = "run failed: "+firstLine(sn.Res.Crash), "crash"
			} else if sn.OutErr != nil {
				what, kind = "output is not one strict JSON object: "+sn.OutErr.Error(), "bad-json"
			}
			c.Violation(kind+"|"+sn.Item.Label(), fmt.Sprintf("%s (flags %s)", what, sn.Flags), replayOf(sn, nil))
		} else {
			c.Count("unjudged_no_output", 1)
		}
		return false
	}
	return true
}
