package checks

import "sort"

var Registry = map[string]func() int{
	"C01": C01,
	"C03": C03,
	"C04": C04,
	"C05": C05,
	"C02": C02,
	"C19": C19,
	"C13": C13,
	"C09": C09,
	"C10": C10,
	"C11": C11,
	"C06": C06,
	"C07": C07,
	"C08": C08,
	"C12": C12,
	"C14": C14,
	"C15": C15,
	"C16": C16,
	"C17": C17,
	"C18": C18,
	"C20": C20,
}

func IDs() []string {
	var ids []string
	for k := range Registry {
		ids = append(ids, k)
	}
	sort.Strings(ids)
	return ids
}
