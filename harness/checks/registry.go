package checks

import "sort"

var Registry = map[string]func() int{
	"C01": C01,
}

func IDs() []string {
	var ids []string
	for k := range Registry {
		ids = append(ids, k)
	}
	sort.Strings(ids)
	return ids
}
