package checks

import (
	"fmt"

	"verif/gen"
	"verif/jt"
)

// C04: nothing outside the redaction zones is altered.
func C04() int {
	s, c, g, ok := setup("C04", "exploration")
	if !ok {
		return c.Finish("build failed")
	}
	defer s.Close()
	vocab := Vocabulary(s, c)
	items := CoreCorpus(g, pickN(c, 1500, 20000))
	for i := 0; i < pickN(c, 2500, 40000); i++ {
		l := g.OtherLine()
		// whole line is KEEP except attr.remote / attr.ns (tagged by the generator)
		l.T = &jt.Tag{Role: jt.Keep}
		items = append(items, rawItem("other", l, i))
	}
	// lines of other components that ECHO a command document (replication, sharding, network
	// diagnostics do): outside the line gate, so even the query-bearing members are KEEP; only
	// attr.ns / namespace-bearing command fields may change, and only under -w
	for i := 0; i < pickN(c, 900, 9000); i++ {
		cs := g.Case(gen.CaseOpts{Comp: "OTHER", Carrier: gen.Carriers[i%3], Msg: []string{"Received command", "Replaying op", "Slow network response", "Command failed"}[i%4]})
		cs.Line.Walk(nil, func(_ []string, n *jt.Node) {
			if n.T != nil && (n.T.Role == jt.Sens || n.T.Role == jt.Free || n.T.Role == jt.Ref) {
				n.T = &jt.Tag{Role: jt.Keep}
			}
		})
		cs.Line.T = &jt.Tag{Role: jt.Keep}
		it := mkItem(cs, i)
		it.Kind = "other-with-command"
		items = append(items, it)
	}
	// deep nesting outside the zones: other-component lines and a command line's non-zone attribute
	for i, d := range []int{40, 90, 97, 98, 99, 100, 101, 102, 103, 130, 200, 500, 2000} {
		l := g.OtherLine()
		l.Get("attr").Set("deep", g.DeepTree(d))
		l.T = &jt.Tag{Role: jt.Keep}
		items = append(items, rawItem("other-deep", l, i))
		cs := g.Case(gen.CaseOpts{})
		dt := g.DeepTree(d)
		dt.T = &jt.Tag{Role: jt.Keep}
		cs.Line.Get("attr").Set("deepExtra", dt)
		items = append(items, mkItem(cs, i))
	}
	for i, l := range g.CharsetLines() {
		kind := "other"
		if l.T == nil {
			kind = "charset-command"
		}
		items = append(items, rawItem(kind, l, i))
	}
	for i, l := range g.BoundaryLines() {
		kind := "boundary-other"
		if l.T == nil {
			kind = "boundary-command"
		}
		items = append(items, rawItem(kind, l, i))
	}
	for i, l := range g.EnvelopeKinds() {
		items = append(items, rawItem("envelope-kind", l, i))
	}
	// zone lines whose non-zone part is soup: command documents with extra
	// non-query-bearing members holding arbitrary trees
	for i := 0; i < pickN(c, 1500, 20000); i++ {
		cs := g.Case(gen.CaseOpts{})
		attr := cs.Line.Get("attr")
		cmd := attr.Get(cs.Carrier)
		for k, n := 0, 1+i%3; k < n; k++ {
			sp := g.VocabSoup(vocab, 3)
			sp.T = &jt.Tag{Role: jt.Keep}
			if k == 0 {
				attr.Set("extra"+fmt.Sprint(k), sp)
			} else if cmd != nil {
				cmd.Set(g.Field()+"Opt", sp) // a command-level option that is not one of the query-bearing fields
			}
		}
		items = append(items, mkItem(cs, i))
	}
	fsets := FlagSets(c.Tier, false, true)
	nonCanon := map[string]bool{}
	RunCorpus(s, items, fsets, 300, func(sn Seen) {
		if !basicOutcome(c, sn, true) {
			return
		}
		kept, nums := 0, 0
		WalkTagged(sn.Item.Tree, sn.Out, false, func(o TObs) {
			if o.Mismatch == "keys" {
				c.Violation("keys-changed|"+opSig(o.Path), fmt.Sprintf("object keys changed at %s: %v -> %v (flags %s)", jt.PathStr(o.Path), o.In.Keys, o.Out.Keys, sn.Flags), replayOf(sn, nil))
				return
			}
			if o.Tag == nil {
				return
			}
			must := false
			switch o.Tag.Role {
			case jt.Keep:
				must = true
			case jt.NsDB, jt.NsColl, jt.NsFull:
				// namespace arguments of pipeline stages sit inside a zone and are not
				// among the in-zone items the statement lists as kept (C12's business)
				must = !sn.Flags.W && o.Tag.Slot != "stage"
			case jt.Remote:
				must = !sn.Flags.I
			}
			if !must {
				return
			}
			if o.Mismatch != "" {
				c.Violation("kept-shape|"+opSig(o.Path), fmt.Sprintf("non-zone value at %s changed shape (%s; flags %s)", jt.PathStr(o.Path), o.Mismatch, sn.Flags), replayOf(sn, nil))
				return
			}
			switch o.In.K {
			case jt.Str:
				kept++
				if o.In.S != o.Out.S {
					c.Violation("kept-string|"+opSig(o.Path), fmt.Sprintf("string outside the zones altered at %s: %q -> %q (flags %s)", jt.PathStr(o.Path), trunc(o.In.S, 80), trunc(o.Out.S, 80), sn.Flags), replayOf(sn, nil))
				}
			case jt.Num:
				kept++
				nums++
				if o.In.S != o.Out.S {
					c.Violation("kept-number|"+opSig(o.Path), fmt.Sprintf("number literal outside the zones rewritten at %s: %s -> %s (flags %s)", jt.PathStr(o.Path), o.In.S, o.Out.S, sn.Flags), replayOf(sn, nil))
				}
			case jt.Bool:
				kept++
				if o.In.B != o.Out.B {
					c.Violation("kept-bool|"+opSig(o.Path), fmt.Sprintf("boolean outside the zones altered at %s (flags %s)", jt.PathStr(o.Path), sn.Flags), replayOf(sn, nil))
				}
			case jt.Null:
				kept++
			}
		})
		c.Count("kept_leaves_compared", kept)
		c.Count("kept_number_literals_compared", nums)
		key := ""
		if kept > 5 {
			key = string(sn.Item.Raw) + sn.Flags.String()
		}
		c.Eval(key)
		if sn.Item.Kind == "other" {
			c.Sample(map[string]any{"flags": sn.Flags.String(), "input": short(sn.Item.Raw, 500), "output": short(sn.Res.Out, 500)})
		}
	})
	for _, it := range items {
		it.Tree.Walk(nil, func(_ []string, n *jt.Node) {
			if n.K == jt.Num {
				if _, err := fmt.Sscan(n.S, new(int64)); err != nil || len(n.S) > 15 {
					nonCanon[n.S] = true
				}
			}
		})
	}
	reportBatchAnomalies(c)
	c.Set("distinct_noncanonical_number_literals_in_inputs", len(nonCanon))
	c.Set("flag_sets", flagNames(fsets))
	raceVerdict(s, c)
	if c.Counter("kept_leaves_compared") < 100000 {
		c.Inconclusive(fmt.Sprintf("only %d non-zone leaves compared", c.Counter("kept_leaves_compared")))
	}
	c.Assume("strings with lone surrogates / invalid UTF-8 are not generated (Go cannot represent them; MongoDB does not emit them)")
	c.Assume("byte equality is not demanded: escaping may differ; decoded strings and raw number text must be identical")
	c.Assume("--redactFieldNames excluded here (its effect on keys and planSummary is C15's subject)")
	return c.Finish("other-component lines of arbitrary JSON soup (whole line KEEP except attr.remote under -i and attr.ns under -w), grammar command lines (everything outside the query-bearing fields, plus $limit/$skip at any depth, top-level $sample.size, search index/numCandidates/limit, $binary.subType are KEEP) and command lines with extra soup members; compared leaf by leaf: decoded strings, RAW number text, booleans, key order; non-trivial = more than 5 KEEP leaves, distinct by line+flags")
}
