package checks

import (
	"bytes"
	"compress/gzip"
	"fmt"
	"math/rand"
	"os"
	"path/filepath"
	"strings"
	"sync"

	"verif/ev"
	"verif/gen"
	"verif/jt"
	"verif/sut"
)

// C06: a log is processed as an order-preserving, line-local map.
//
// Histories = sequences of lines; the oracle is offline over recorded outputs:
// identity/order through a unique marker per object line, algebraic laws
// (concatenation, permutation, duplication), byte equality across all channel
// variants, singleton references from fresh processes.

type c06Line struct {
	raw []byte
	obj bool   // a JSON object by the driver's strict reader
	tag string // unique ctx marker of object lines
	cls string
}

var c06NonJSON = []string{
	"", " ", "\t", "   \t  ",
	"plain text line", "2020-01-01T00:00:00.000+0000 I COMMAND  [conn1] command db.c command: find { find: \"c\", filter: { a: \"legacySecret\" } } planSummary: COLLSCAN 120ms",
	"Sat Oct  5 10:00:00.000 [initandlisten] MongoDB starting", "null", "true", "123", "-1.5e3", "\"just a string\"", "[1,2,3]", "[{\"a\":1}]", "[]",
	"{", "}", "{\"a\":1", "{\"a\":{\"b\":[1,2", "{\"t\":{\"$date\":\"2025-01-01T00:00:00Z\"},\"c\":\"COMMAND\",\"attr\":{\"command\":{\"find\":\"c\",\"filter\":{\"a\":\"truncSecret", "{\"a\":1}}", "{\"a\":1} ]", "{\"a\":1} trailing", "{\"a\":1}{\"b\":2}", "{\"a\":1},",
	"{'single':1}", "{a:1}", "{\"a\":01}", "{\"a\":1,}", "{\"a\":.5}", "{\"a\":+1}", "{\"a\":NaN}", "{\"a\":tru}", "{\"a\" 1}", "{\"a\":\"unterminated}", "{\"a\":\"bad\\escape\"}", "{\"a\":\"tab\tinside\"}",
	// a UTF-8 byte order mark is not JSON white space: a line that starts (or ends) with one is not a JSON object, wherever it stands
	"\ufeff{\"a\":1}", "\ufeff", "{\"a\":1}\ufeff", "\ufeff\ufeff{\"a\":1}", "\ufeff {\"t\":{\"$date\":\"2025-01-01T00:00:00.000Z\"},\"s\":\"I\",\"c\":\"NETWORK\",\"id\":1,\"ctx\":\"bomRAWline\",\"msg\":\"m\"}",
	// text shaped like a log entry (starts with {"t":{"$date":" and ends with }) that is not JSON: two entries glued onto one line, an unescaped quote, a missing comma
	"{\"t\":{\"$date\":\"2025-01-01T00:00:00.000Z\"},\"s\":\"I\",\"c\":\"NETWORK\",\"id\":1,\"ctx\":\"RAWglued1\",\"msg\":\"m\"}{\"t\":{\"$date\":\"2025-01-01T00:00:00.001Z\"},\"s\":\"I\",\"c\":\"NETWORK\",\"id\":1,\"ctx\":\"RAWglued2\",\"msg\":\"m\"}",
	"{\"t\":{\"$date\":\"2025-01-01T00:00:00.000Z\"},\"s\":\"I\",\"c\":\"CONTROL\",\"id\":2,\"ctx\":\"RAWquote\",\"msg\":\"say \"hi\" there\"}",
	"{\"t\":{\"$date\":\"2025-01-01T00:00:00.000Z\"},\"s\":\"I\",\"c\":\"CONTROL\",\"id\":2 \"ctx\":\"RAWcomma\",\"msg\":\"m\"}",
	"{\"t\":{\"$date\":\"2025-01-01T00:00:00.000Z\"},\"s\":\"I\",\"c\":\"COMMAND\",\"id\":3,\"ctx\":\"RAWattr\",\"msg\":\"Slow query\",\"attr\":{\"ns\":\"db1.c\" \"command\":{\"find\":\"c\",\"filter\":{\"a\":\"rawSecret\"}}}}",
	"// comment", "#!/bin/sh", "<xml/>", "\x00\x01\x02", "\xff\xfe{\"a\":1}", "{\"a\":1}\x00", "{\"k\":\"v\"}garbage{\"k\":\"v\"}", "---", "{}{}",
}

func c06Pool(g *gen.Gen, rng *rand.Rand, n int) []c06Line {
	var pool []c06Line
	serial := 0
	mark := func(t *jt.Node) string {
		serial++
		tag := fmt.Sprintf("vq%dm", serial)
		t.Set("ctx", jt.StrN(tag))
		return tag
	}
	for i := 0; i < n; i++ {
		var t *jt.Node
		cls := "command"
		switch i % 6 {
		case 0:
			t, cls = g.OtherLine(), "other"
		default:
			t = g.Case(gen.CaseOpts{DB: "db" + []string{"one", "two", "xyz"}[i%3], Coll: []string{"c1", "c2", "orders", "users"}[i%4]}).Line
		}
		tag := mark(t)
		raw := t.Bytes([]jt.Style{jt.Plain, jt.GoLike, jt.Unicode}[i%3])
		switch i % 11 {
		case 3:
			raw = append([]byte("  "), append(raw, ' ', '\t')...) // surrounding white space is still one JSON object
		}
		pool = append(pool, c06Line{raw: raw, obj: true, tag: tag, cls: cls})
	}
	// every search operator on a selected and on a non-selected path (history
	// dependence through shared operator tables shows only when one operator
	// occurs on different paths within one run)
	for i, cs := range g.SearchCatalogue([]string{"name", "score", "address.city"}) {
		if i%2 == 0 || n >= 1000 {
			tag := mark(cs.Line)
			pool = append(pool, c06Line{raw: cs.Line.Bytes(jt.Plain), obj: true, tag: tag, cls: "search-catalogue"})
		}
	}
	// degenerate but valid objects
	for _, s := range []string{`{}`, `{"ctx":"vqE1m"}`, `{"ctx":"vqE2m","attr":null}`, `{"ctx":"vqE3m","attr":[]}`, `{"ctx":"vqE4m","c":"COMMAND","attr":{"command":"notadoc","ns":5}}`, `{"ctx":"vqE5m","c":"WRITE","msg":"Slow query","attr":{}}`} {
		tag := ""
		if i := strings.Index(s, "vqE"); i >= 0 {
			tag = s[i : i+5]
		}
		pool = append(pool, c06Line{raw: []byte(s), obj: true, tag: tag, cls: "degenerate"})
	}
	// entries of this very pool with one structural character damaged (a comma or colon lost, a stray
	// quote, a doubled closing brace, two entries on one line): still shaped like entries, not JSON
	for i, nObj := 0, len(pool); i < n/4+12 && nObj > 0; i++ {
		raw := append([]byte{}, pool[rng.Intn(nObj)].raw...)
		if len(raw) < 20 || bytes.ContainsAny(raw, "\n\r") {
			continue
		}
		var pos []int
		want := []byte{',', ':', '"', '}'}[i%4]
		for j := 1; j < len(raw)-1; j++ {
			if raw[j] == want {
				pos = append(pos, j)
			}
		}
		switch {
		case i%9 == 8:
			raw = append(raw, pool[rng.Intn(nObj)].raw...)
		case len(pos) == 0:
			continue
		case want == '"':
			j := pos[rng.Intn(len(pos))]
			raw = append(raw[:j+1], append([]byte{'"'}, raw[j+1:]...)...)
		case want == '}':
			raw = append(raw, '}')
		default:
			j := pos[rng.Intn(len(pos))]
			raw = append(raw[:j], raw[j+1:]...)
		}
		if _, err := jt.ParseObject(raw); err == nil {
			continue // the damage happened to leave a JSON object (a colon inside a string, ...)
		}
		pool = append(pool, c06Line{raw: raw, obj: false, cls: "damaged-entry"})
	}
	for _, s := range c06NonJSON {
		_, err := jt.ParseObject([]byte(s))
		if err == nil {
			continue // must not happen; guarded so the classification stays the driver's
		}
		if strings.ContainsAny(s, "\n\r") {
			continue
		}
		pool = append(pool, c06Line{raw: []byte(s), obj: false, cls: "non-json"})
	}
	return pool
}

type c06Chan struct {
	In    string // file gz gzmulti GZ stdin
	Out   string // stdout ofile
	CRLF  bool
	Final bool
}

func (ch c06Chan) String() string {
	le, fn := "LF", "final-newline"
	if ch.CRLF {
		le = "CRLF"
	}
	if !ch.Final {
		fn = "no-final-newline"
	}
	return ch.In + ">" + ch.Out + "/" + le + "/" + fn
}

func c06Bytes(lines []c06Line, crlf, final bool) []byte {
	var buf bytes.Buffer
	sep := "\n"
	if crlf {
		sep = "\r\n"
	}
	for i, l := range lines {
		buf.Write(l.raw)
		if i < len(lines)-1 || final {
			buf.WriteString(sep)
		}
	}
	return buf.Bytes()
}

func gz(parts ...[]byte) []byte {
	var buf bytes.Buffer
	for _, p := range parts {
		w := gzip.NewWriter(&buf)
		w.Write(p)
		w.Close()
	}
	return buf.Bytes()
}

// c06Run runs one channel variant and returns the redacted bytes.
func c06Run(s *sut.SUT, f Flags, variant int, lines []c06Line, ch c06Chan) ([]byte, sut.Result) {
	dir := s.TempDir("c06")
	defer os.RemoveAll(dir)
	data := c06Bytes(lines, ch.CRLF, ch.Final)
	args := append([]string{"redact"}, f.Args(variant, "")...)
	run := sut.Run{Dir: dir}
	switch ch.In {
	case "stdin":
		run.Stdin = data
		if len(data) == 0 {
			run.Stdin = []byte{}
		}
	case "file":
		p := filepath.Join(dir, "in.log")
		os.WriteFile(p, data, 0o644)
		args = append(args, p)
	case "gz", "GZ":
		p := filepath.Join(dir, "in.log."+ch.In)
		os.WriteFile(p, gz(data), 0o644)
		args = append(args, p)
	case "gzmulti":
		p := filepath.Join(dir, "in.log.gz")
		a, b := len(data)/3, 2*len(data)/3
		os.WriteFile(p, gz(data[:a], data[a:b], nil, data[b:]), 0o644)
		args = append(args, p)
	}
	outp := filepath.Join(dir, "out.log")
	if ch.Out == "ofile" {
		args = append(args, "-o", outp)
		if variant%3 != 1 {
			// the output path already holds an older, longer result (yesterday's log): it must be replaced, not overwritten in place
			stale := bytes.Repeat([]byte(`{"stale":"output of an earlier run"}`+"\n"), 200+2*len(data)/37)
			os.WriteFile(outp, stale, 0o644)
			staleMu.Lock()
			staleRuns++
			staleMu.Unlock()
		}
	}
	run.Args = args
	// standard error is a character device (a terminal, 2>/dev/null) in a third of the runs: where the
	// diagnostics go has nothing to do with what is emitted
	run.StderrNull = variant%3 == 2
	r := s.CLI(run)
	if ch.Out == "ofile" {
		b, _ := os.ReadFile(outp)
		return b, r
	}
	return r.Stdout, r
}

var (
	staleMu   sync.Mutex
	staleRuns int
)

func c06Objs(lines []c06Line) []c06Line {
	var o []c06Line
	for _, l := range lines {
		if l.obj {
			o = append(o, l)
		}
	}
	return o
}

func C06() int {
	s, c, g, ok := setup("C06", "exploration")
	if !ok {
		return c.Finish("build failed")
	}
	defer s.Close()
	rng := rand.New(rand.NewSource(c.Seed*6007 + 6))
	g.LongMax = 200
	pool := c06Pool(g, rng, pickN(c, 500, 3000))
	// families of lines that report the SAME operation shape (one namespace, one queryHash / planCacheKey, one
	// cursor) with literals of different classes and lists of different lengths: whatever a line yields, it
	// yields it whichever member of its family was processed before it
	var families [][]c06Line
	for fi := 0; fi < 12; fi++ {
		var fam []c06Line
		lits := []string{`"plain` + fmt.Sprint(fi) + `"`, `"user` + fmt.Sprint(fi) + `@example.com"`, `{"$oid":"5f1e5e2d2c3b4a0001a2b3c4"}`, `{"$date":"2024-05-06T07:08:09.000Z"}`, `null`, `4711`, `true`, `{"$in":["a","b","c"]}`, `{"$in":["a"]}`, `{"$binary":{"base64":"QUJDRA==","subType":"04"}}`}
		for li := 0; li < 4; li++ {
			tag := fmt.Sprintf("vqF%dx%dm", fi, li)
			raw := fmt.Sprintf(`{"t":{"$date":"2025-02-03T04:05:06.000Z"},"s":"I","c":"COMMAND","id":51803,"ctx":"%s","msg":"Slow query","attr":{"type":"command","ns":"dbone.fam%d","command":{"find":"fam%d","filter":{"k":%s,"n":{"$gt":%d}},"limit":%d,"$db":"dbone"},"planSummary":"IXSCAN { k: 1 }","queryHash":"FA%02dAB12","planCacheKey":"0C%02dDE34","cursorid":%d,"durationMillis":%d}}`,
				tag, fi, fi, lits[(fi+li*3)%len(lits)], 10+li, 5+li, fi, fi, 7000+fi, li)
			fam = append(fam, c06Line{raw: []byte(raw), obj: true, tag: tag, cls: "shape-family"})
		}
		families = append(families, fam)
	}
	var objIdx, nonIdx []int
	for i, l := range pool {
		if l.obj {
			objIdx = append(objIdx, i)
		} else {
			nonIdx = append(nonIdx, i)
		}
	}
	c.Set("pool_object_lines", len(objIdx))
	c.Set("pool_non_object_lines", len(nonIdx))
	nseq := pickN(c, 64, 1500)
	maxLen := pickN(c, 160, 2000)
	fsets := []Flags{{}, {W: true}, {F: "db"}, {N: true, B: true, I: true, W: true, R: sp("[x]")}, {F: "dbone", W: true}, {Z: "^(name|ssn|tags|qty)$", N: true, B: true}, {Z: "(?i)city|mail"}}
	var chans []c06Chan
	for _, in := range []string{"file", "gz", "gzmulti", "GZ", "stdin"} {
		for _, out := range []string{"stdout", "ofile"} {
			for _, crlf := range []bool{false, true} {
				for _, fin := range []bool{true, false} {
					chans = append(chans, c06Chan{in, out, crlf, fin})
				}
			}
		}
	}
	c.Set("channel_variants", len(chans))
	base := c06Chan{"file", "stdout", false, true}
	singles := map[string][]byte{} // flags|tag -> reference line from the sequence runs
	var smu = make(chan struct{}, 1)
	smu <- struct{}{}
	singleBudget := pickN(c, 320, 6000)

	parallelDo(nseq, func(si int) {
		r := rand.New(rand.NewSource(c.Seed*100003 + int64(si)))
		n := 0
		switch si % 8 {
		case 0:
			n = si / 8 % 3 // 0,1,2 lines
		default:
			n = 1 + r.Intn(maxLen)
		}
		var S []c06Line
		for i := 0; i < n; i++ {
			if r.Intn(100) < 30 {
				S = append(S, pool[nonIdx[r.Intn(len(nonIdx))]])
			} else {
				S = append(S, pool[objIdx[r.Intn(len(objIdx))]])
			}
			if r.Intn(100) < 8 { // the same line again, immediately (overlapping downloads, retried operations)
				S = append(S, S[len(S)-1])
				i++
			}
		}
		if si%6 == 2 && len(S) > 0 {
			// reader-buffer boundaries: a line of exactly k×4096 (±1) bytes as the LAST line
			// (the no-final-newline variants then end exactly on a buffer boundary) and in the middle
			L := []int{4096, 8192, 12288, 16384, 4095, 4097, 32768, 20480, 8191, 61440}[(si/6)%10]
			last := pool[objIdx[r.Intn(len(objIdx))]]
			for tries := 0; tries < 20 && len(last.raw) >= L-20; tries++ {
				last = pool[objIdx[r.Intn(len(objIdx))]]
			}
			if p, ok := c06PadTo(last, L); ok {
				S = append(S, p)
				if len(S) > 3 {
					S[len(S)/2] = p
				}
			}
		}
		if si%4 == 3 && len(S) > 0 {
			// a real entry behind a UTF-8 byte order mark (files saved by Windows tools, two such files
			// concatenated): not a JSON object - as the very FIRST line of the input, in the middle, at the end
			bom := func() c06Line {
				o := pool[objIdx[r.Intn(len(objIdx))]]
				return c06Line{raw: append([]byte("\xef\xbb\xbf"), o.raw...), obj: false, cls: "entry-behind-a-byte-order-mark"}
			}
			switch si / 4 % 3 {
			case 0:
				S = append([]c06Line{bom()}, S...)
			case 1:
				S = append([]c06Line{bom()}, S...)
				S[len(S)/2] = bom()
			case 2:
				S = append(S, bom())
			}
		}
		if si%2 == 0 && len(S) > 0 {
			// the members of one family, in a history-dependent order, scattered over the history
			fam := families[(si/2)%len(families)]
			for _, k := range r.Perm(len(fam)) {
				at := r.Intn(len(S) + 1)
				S = append(S[:at], append([]c06Line{fam[k]}, S[at:]...)...)
			}
		}
		if si%8 == 5 && len(nonIdx) > 0 {
			// a log that starts in another format: 35-70 lines that are not JSON objects (legacy text lines, blank
			// lines, stray text) before the first entry - the upgrade of an old deployment, `cat old.log new.log`
			var pre []c06Line
			for i, n := 0, 35+r.Intn(36); i < n; i++ {
				pre = append(pre, pool[nonIdx[(si+i*7)%len(nonIdx)]])
			}
			S = append(pre, S...)
		}
		if si%16 == 11 {
			// ... or 12-40 lines of the pre-4.4 text format (a log that spans the upgrade), blank lines in between
			var pre []c06Line
			for i, n := 0, 12+r.Intn(29); i < n; i++ {
				txt := fmt.Sprintf("2020-01-%02dT10:00:%02d.%03d+0000 %s %-8s [conn%d] %s", 1+i%28, i%60, i*37%1000, []string{"I", "W", "E"}[i%3], []string{"COMMAND", "NETWORK", "STORAGE", "CONTROL"}[i%4], 100+i,
					[]string{"command db.c command: find { find: \"c\", filter: { a: \"legacySecret\" } } planSummary: COLLSCAN 120ms", "end connection 10.0.0.5:51234 (3 connections now open)", "WiredTiger message [1579600800:123456][1:0x7f], txn-recover: Recovering log 4 through 5", "MongoDB starting : pid=1 port=27017 dbpath=/data/db 64-bit host=h"}[i%4])
				pre = append(pre, c06Line{raw: []byte(txt), obj: false, cls: "legacy-text-prefix"})
				if i%9 == 8 {
					pre = append(pre, c06Line{raw: []byte(""), obj: false, cls: "blank"})
				}
			}
			S = append(pre, S...)
		}
		if si%5 == 1 { // blank lines at the very end (progress-bar special case)
			S = append(S, pool[nonIdx[0]], pool[nonIdx[0]])
		}
		f := fsets[si%len(fsets)]
		desc := func(ch c06Chan) map[string]any {
			return map[string]any{"kind": "sequence", "flags": f.Args(0, ""), "channel": ch.String(), "input": string(c06Bytes(S, ch.CRLF, ch.Final))}
		}
		B, rb := c06Run(s, f, si, S, base)
		if rb.TimedOut {
			c.Inconclusive("watchdog")
			return
		}
		if rb.Exit != 0 || sut.Crashed(rb.Stderr) {
			c.Violation("run-failed", fmt.Sprintf("sequence of %d lines: exit %d: %s", len(S), rb.Exit, short(rb.Stderr, 300)), desc(base))
			return
		}
		c.Count("histories", 1)
		c.Count("input_lines", len(S))
		// (1) one newline-terminated line per object line, in order, nothing else
		objs := c06Objs(S)
		outs := splitLines(B)
		if len(B) > 0 && B[len(B)-1] != '\n' {
			c.Violation("no-final-newline", "the output does not end in a newline", desc(base))
		}
		if len(outs) != len(objs) {
			what := fmt.Sprintf("%d input lines of which %d are JSON objects, but %d output lines", len(S), len(objs), len(outs))
			// name the first divergence
			for i := 0; i < len(outs) || i < len(objs); i++ {
				if i >= len(outs) || i >= len(objs) || !bytes.Contains(outs[i], []byte(`"`+objs[i].tag+`"`)) {
					if i < len(outs) {
						what += fmt.Sprintf("; first unexpected/misplaced output line %d: %s", i, short(outs[i], 160))
					} else {
						what += fmt.Sprintf("; no output for object line with marker %s", objs[i].tag)
					}
					break
				}
			}
			c.Violation("line-count", what, desc(base))
			return
		}
		for i, o := range outs {
			if len(o) == 0 {
				c.Violation("empty-output-line", fmt.Sprintf("output line %d is empty", i), desc(base))
				return
			}
			t, err := jt.ParseObject(o)
			if err != nil {
				c.Violation("output-not-json", fmt.Sprintf("output line %d is not one JSON object: %v: %s", i, err, short(o, 120)), desc(base))
				return
			}
			if objs[i].tag != "" {
				if cx := t.Get("ctx"); cx == nil || cx.S != objs[i].tag {
					c.Violation("order-or-identity", fmt.Sprintf("output line %d carries marker %s, expected %s (the %d-th object line of the input)", i, nodeBytes(cx), objs[i].tag, i), desc(base))
					return
				}
			}
			c.Count("output_lines_matched_to_input_lines", 1)
		}
		// line-locality: every occurrence of one line gives the same bytes, whatever precedes it
		ref := map[string][]byte{}
		for i, o := range outs {
			k := string(objs[i].raw)
			if prev, seen := ref[k]; seen && !bytes.Equal(prev, o) {
				c.Violation("context-dependent-line", fmt.Sprintf("the same input line (marker %s) yields different output at two positions of one run (flags %s)", objs[i].tag, f), desc(base))
				return
			}
			ref[k] = o
		}
		<-smu
		for i, o := range outs {
			k := f.String() + "\x00" + string(objs[i].raw)
			if prev, seen := singles[k]; seen && !bytes.Equal(prev, o) {
				smu <- struct{}{}
				c.Violation("context-dependent-line", fmt.Sprintf("input line with marker %s yields different output in two different logs (flags %s)", objs[i].tag, f), desc(base))
				return
			}
			singles[k] = o
		}
		smu <- struct{}{}
		// (2) algebraic laws
		if len(S) >= 2 {
			cut := 1 + r.Intn(len(S)-1)
			oa, ra := c06Run(s, f, si, S[:cut], base)
			ob, rb2 := c06Run(s, f, si, S[cut:], base)
			c.Count("split_laws_checked", 1)
			if ra.Exit != 0 || rb2.Exit != 0 || !bytes.Equal(append(append([]byte{}, oa...), ob...), B) {
				c.Violation("concat-law", fmt.Sprintf("redact(A++B) != redact(A)++redact(B) for a split at line %d of %d (flags %s)", cut, len(S), f), desc(base))
			}
			perm := r.Perm(len(S))
			PS := make([]c06Line, len(S))
			for i, j := range perm {
				PS[i] = S[j]
			}
			op, rp := c06Run(s, f, si, PS, base)
			var want bytes.Buffer
			for _, l := range PS {
				if l.obj {
					want.Write(ref[string(l.raw)])
					want.WriteByte('\n')
				}
			}
			c.Count("permutation_laws_checked", 1)
			if rp.Exit != 0 || !bytes.Equal(op, want.Bytes()) {
				c.Violation("permutation-law", fmt.Sprintf("redact(π(S)) != π(redact(S)) for a %d-line log (flags %s)", len(S), f), map[string]any{"kind": "sequence", "flags": f.Args(0, ""), "channel": base.String(), "input": string(c06Bytes(PS, false, true)), "original_order_input": string(c06Bytes(S, false, true))})
			}
			if si%4 == 0 {
				od, rd := c06Run(s, f, si, append(append([]c06Line{}, S...), S...), base)
				c.Count("duplication_laws_checked", 1)
				if rd.Exit != 0 || !bytes.Equal(od, append(append([]byte{}, B...), B...)) {
					c.Violation("duplication-law", fmt.Sprintf("redact(S++S) != redact(S)++redact(S) (flags %s)", f), desc(base))
				}
			}
		}
		// (2b) a log that already went through the tool, appended to / put in front of the raw log
		// (`cat raw.log redacted.log`): under -w / -f its names ARE pseudonyms issued for the raw
		// lines. Each line still yields what it yields alone, on either side.
		if (f.W || f.F != "") && len(outs) > 0 && len(S) <= 600 {
			var R []c06Line
			for i, o := range outs {
				R = append(R, c06Line{raw: o, obj: true, tag: objs[i].tag})
			}
			oR, rR := c06Run(s, f, si, R, base)
			oSR, r1 := c06Run(s, f, si, append(append([]c06Line{}, S...), R...), base)
			oRS, r2 := c06Run(s, f, si, append(append([]c06Line{}, R...), S...), base)
			c.Count("feedback_laws_checked", 1)
			if rR.TimedOut || r1.TimedOut || r2.TimedOut {
				c.Inconclusive("watchdog")
			} else if rR.Exit != 0 || r1.Exit != 0 || r2.Exit != 0 || !bytes.Equal(oSR, append(append([]byte{}, B...), oR...)) || !bytes.Equal(oRS, append(append([]byte{}, oR...), B...)) {
				c.Violation("concat-law|own-output-appended", fmt.Sprintf("with R = redact(S): redact(S++R) != redact(S)++redact(R) or redact(R++S) != redact(R)++redact(S) for a %d-line log (flags %s): lines whose names are pseudonyms issued earlier in the run are treated differently", len(S), f), desc(base))
			}
		}
		// (3) all channel variants byte-identical (+ one repetition of the base)
		for ci, ch := range chans {
			if !thorough(c) && si >= 24 && (ci+si)%4 != 0 {
				continue // quick: the first 24 histories see all 40 variants, the rest a rotating quarter
			}
			o, rr := c06Run(s, f, si+ci, S, ch)
			c.Count("channel_runs", 1)
			c.Eval(fmt.Sprintf("%d|%s", si, ch))
			if rr.TimedOut {
				c.Inconclusive("watchdog")
				continue
			}
			if rr.Exit != 0 || !bytes.Equal(o, B) {
				lo, lb := splitLines(o), splitLines(B)
				what := fmt.Sprintf("exit %d, %d lines vs %d lines", rr.Exit, len(lo), len(lb))
				for i := 0; i < len(lo) && i < len(lb); i++ {
					if !bytes.Equal(lo[i], lb[i]) {
						what = fmt.Sprintf("line %d differs: %s  vs  %s", i, short(lo[i], 100), short(lb[i], 100))
						break
					}
				}
				c.Violation("channel-differs|"+ch.In+">"+ch.Out, fmt.Sprintf("channel %s gives other bytes than file>stdout/LF/final-newline: %s (flags %s; stderr %s)", ch, what, f, short(rr.Stderr, 120)), desc(ch))
			}
		}
		if si < 6 && len(S) > 0 {
			c.Sample(map[string]any{"flags": f.String(), "input_lines": len(S), "object_lines": len(objs), "output_lines": len(outs), "first_input_line": short(S[0].raw, 200)})
		}
	})

	// singleton references: a fresh process given only that line
	c06Singles(s, c, singles, singleBudget, fsets)

	c06OutputNamesInput(s, c, pool)

	c.Set("flag_sets", flagNames(fsets))
	c.Set("runs_onto_an_existing_longer_output_file", staleRuns)
	raceVerdict(s, c)
	if c.Counter("histories") < 50 || c.Counter("channel_runs") < 1200 {
		c.Inconclusive("too few histories / channel runs")
	}
	c.Assume("lines ≥ 64 KiB are not generated here (C07's explicit exception); no invalid UTF-8 inside JSON strings; no duplicate keys")
	c.Assume("'a JSON object' is decided by the driver's strict reader: exactly one object, optionally surrounded by white space")
	return c.Finish("random line sequences (0–" + fmt.Sprint(maxLen) + " lines) over {grammar command lines, other-component lines, degenerate objects, blank, white-space-only, non-JSON text, JSON scalars/arrays, legacy text lines, truncated objects, objects with trailing garbage}; for each history: identity and order through a unique marker per object line, concatenation / permutation / duplication laws, byte equality of 5 input channels × 2 output channels × LF/CRLF × final newline or not, and singleton references from fresh processes; flag sets include -w and -f (the ones writing the global side table)")
}

func c06Singles(s *sut.SUT, c *ev.Check, singles map[string][]byte, budget int, fsets []Flags) {
	keys := sortedKeys(singles)
	if len(keys) > budget {
		step := len(keys) / budget
		var sub []string
		for i := 0; i < len(keys); i += step {
			sub = append(sub, keys[i])
		}
		keys = sub
	}
	fl := map[string]Flags{}
	for _, f := range fsets {
		fl[f.String()] = f
	}
	parallelDo(len(keys), func(i int) {
		k := keys[i]
		cut := strings.Index(k, "\x00")
		f, line := fl[k[:cut]], []byte(k[cut+1:])
		o, r := c06Run(s, f, i, []c06Line{{raw: line, obj: true}}, c06Chan{"file", "stdout", false, true})
		c.Count("singleton_reference_runs", 1)
		if r.TimedOut {
			c.Inconclusive("watchdog")
			return
		}
		want := append(append([]byte{}, singles[k]...), '\n')
		if r.Exit != 0 || !bytes.Equal(o, want) {
			c.Violation("not-line-local", fmt.Sprintf("a line processed on its own (fresh process) yields other bytes than inside a log (flags %s): alone %s, in the log %s", f, short(o, 160), short(want, 160)),
				map[string]any{"kind": "redact-line", "flags": f.Args(0, ""), "input": string(line), "output": string(singles[k])})
		}
	})
}

// c06PadTo returns the object line with an extra string member appended so
// that it is exactly n bytes long.
func c06PadTo(l c06Line, n int) (c06Line, bool) {
	raw := bytes.TrimRight(l.raw, " \t")
	const pre = `,"padding":"`
	need := n - len(raw) - len(pre) - 1
	if !l.obj || need < 0 || len(raw) < 2 || raw[len(raw)-1] != '}' || bytes.TrimSpace(raw)[0] != '{' || bytes.Equal(bytes.TrimSpace(raw), []byte("{}")) {
		return l, false
	}
	out := append([]byte{}, raw[:len(raw)-1]...)
	out = append(out, pre...)
	out = append(out, bytes.Repeat([]byte("p"), need)...)
	out = append(out, '"', '}')
	return c06Line{raw: out, obj: true, tag: l.tag, cls: "padded"}, len(out) == n
}

// c06OutputNamesInput: --outputFile names the very file the input is read from (the same path, another
// spelling of it, a symbolic or a hard link). A run that reports success has written "exactly one line
// for each input line that is a JSON object" to that file — or the job is refused. What never fits the
// statement is a successful run whose output is not the redaction of the log it was given.
func c06OutputNamesInput(s *sut.SUT, c *ev.Check, pool []c06Line) {
	var lines [][]byte
	for _, l := range pool {
		if l.obj && len(l.raw) < 4000 && len(lines) < 25 {
			lines = append(lines, l.raw)
		}
	}
	data := append(bytes.Join(lines, []byte("\n")), '\n')
	ref := s.CLI(sut.Run{Args: []string{"redact"}, Stdin: data, Dir: s.Scratch})
	if ref.TimedOut || ref.Exit != 0 {
		c.Inconclusive("reference run for the in-place cases failed")
		return
	}
	variants := []string{"same-path", "other-spelling", "symlink-to-input", "hard-link-of-input", "input-through-symlinked-directory"}
	for vi, v := range variants {
		for _, gzIn := range []bool{false, true} {
			dir := s.TempDir("c06same")
			name := "app.log"
			content := data
			if gzIn {
				name, content = "app.log.gz", gz(data)
			}
			in := filepath.Join(dir, name)
			os.WriteFile(in, content, 0o644)
			outp := in
			switch v {
			case "other-spelling":
				os.Mkdir(filepath.Join(dir, "sub"), 0o755)
				outp = dir + "/sub/..//./" + name
			case "symlink-to-input":
				outp = filepath.Join(dir, "latest"+filepath.Ext(name))
				os.Symlink(in, outp)
			case "hard-link-of-input":
				outp = filepath.Join(dir, "alias"+filepath.Ext(name))
				os.Link(in, outp)
			case "input-through-symlinked-directory":
				os.Symlink(dir, filepath.Join(dir, "dl"))
				outp = filepath.Join(dir, "dl", name)
			}
			r := s.CLI(sut.Run{Args: []string{"redact", in, "-o", outp}, Dir: dir})
			got, _ := os.ReadFile(outp)
			after, _ := os.ReadFile(in)
			os.RemoveAll(dir)
			if r.TimedOut {
				c.Inconclusive("watchdog")
				continue
			}
			c.Count("runs_whose_output_file_is_the_input_file", 1)
			c.Eval(fmt.Sprintf("in-place|%s|gz=%v|%d", v, gzIn, vi))
			if r.Exit == 0 && !bytes.Equal(got, ref.Stdout) {
				c.Violation("output-file-is-the-input|"+v, fmt.Sprintf("redact %s -o <%s> (%d input lines): exit 0, but the output file holds %d bytes / %d lines instead of the %d redacted lines", name, v, len(lines), len(got), len(splitLines(got)), len(splitLines(ref.Stdout))),
					map[string]any{"kind": "output-names-input", "variant": v, "gzip_input": gzIn, "exit": r.Exit, "stderr": short(r.Stderr, 200)})
			}
			if r.Exit != 0 {
				c.Count("in_place_jobs_refused", 1)
				if !bytes.Equal(after, content) {
					c.Count("in_place_jobs_refused_after_the_input_was_destroyed", 1)
				}
			}
		}
	}
}
