package checks

import (
	"bytes"
	"fmt"
	"math/rand"
	"os"
	"os/exec"
	"path/filepath"
	"regexp"
	"strconv"
	"strings"
	"time"

	"verif/ev"
	"verif/gen"
	"verif/jt"
	"verif/sut"
)

// C07: no line content can crash or abort a run.
//
// Channel A: sandwich files  sentinel, hostile, sentinel, hostile, … through
// the real CLI — the sentinel sequence must come out complete and in order
// (nothing stops the run), exit 0, clean stderr, and between two consecutive
// sentinels at most one line, which must be one strict JSON object.
// Channel B: the same lines through RedactMongoLog+MarshalOrdered in-process
// with a per-call recover (volume; a panic names its input).

func c07Sentinel(k int) []byte {
	return []byte(fmt.Sprintf(`{"t":{"$date":"2025-01-01T00:00:00.000Z"},"s":"I","c":"COMMAND","id":51803,"ctx":"vqS%dm","msg":"Slow query","attr":{"type":"command","ns":"db1.c","command":{"find":"c","filter":{"name":"sentinel%d"},"$db":"db1"},"durationMillis":1}}`, k, k))
}

type c07Mode struct {
	f    Flags
	name string
}

var c07Modes = []c07Mode{
	{Flags{}, "default"},
	{Flags{N: true, B: true, I: true, W: true, R: sp("[x]")}, "all-value-flags"},
	{Flags{F: "db"}, "field-names"},
	{Flags{Z: "^(name|ssn|a|f)$"}, "selective"},
	{Flags{Enc: true}, "encrypt"},
	{Flags{F: "db", Enc: true, W: true}, "field-names+encrypt+namespaces"},
}

// c07Sandwich runs hostile lines between sentinels; returns per hostile line
// the output lines found between its two sentinels, and whether the run as a
// whole was clean. On an unclean run the caller bisects.
func c07Sandwich(s *sut.SUT, m c07Mode, variant int, hostile [][]byte) (segs [][][]byte, clean bool, why string, r sut.Result) {
	dir := s.TempDir("c07")
	defer os.RemoveAll(dir)
	var buf bytes.Buffer
	for i, h := range hostile {
		buf.Write(c07Sentinel(i))
		buf.WriteByte('\n')
		buf.Write(h)
		buf.WriteByte('\n')
	}
	buf.Write(c07Sentinel(len(hostile)))
	buf.WriteByte('\n')
	in := filepath.Join(dir, "in.log")
	os.WriteFile(in, buf.Bytes(), 0o644)
	key := filepath.Join(dir, "k.key")
	if m.f.Enc {
		os.WriteFile(key, []byte(TestKeyB64), 0o600)
	}
	args := append([]string{"redact"}, m.f.Args(variant, key)...)
	args = append(args, in)
	outp := filepath.Join(dir, "out.log")
	useOut := m.f.Enc || variant%2 == 1
	if useOut {
		args = append(args, "-o", outp)
	}
	r = s.CLI(sut.Run{Args: args, Dir: dir})
	out := r.Stdout
	if useOut {
		out, _ = os.ReadFile(outp)
	}
	segs = make([][][]byte, len(hostile))
	next := 0 // next sentinel expected
	cur := -1
	for _, ln := range splitLines(out) {
		if i := bytes.Index(ln, []byte(`"ctx":"vqS`)); i >= 0 {
			var k int
			fmt.Sscanf(string(ln[i+10:]), "%dm", &k)
			if k != next {
				return segs, false, fmt.Sprintf("sentinel %d expected, sentinel %d found", next, k), r
			}
			cur = k
			next++
			continue
		}
		if cur < 0 || cur >= len(hostile) {
			return segs, false, "output before the first / after the last sentinel", r
		}
		segs[cur] = append(segs[cur], ln)
	}
	switch {
	case r.TimedOut:
		return segs, false, "watchdog", r
	case r.Exit != 0:
		return segs, false, fmt.Sprintf("exit %d %s", r.Exit, r.Signal), r
	case sut.Crashed(r.Stderr):
		return segs, false, "runtime crash text on stderr", r
	case next != len(hostile)+1:
		return segs, false, fmt.Sprintf("only %d of %d sentinels came out", next, len(hostile)+1), r
	}
	return segs, true, "", r
}

type c07Case struct {
	raw  []byte
	kind string
}

func c07Judge(c *ev.Check, m c07Mode, hc c07Case, seg [][]byte) {
	c.Count("hostile_lines_judged_"+m.name, 1)
	if len(seg) > 1 {
		c.Violation("multiple-output-lines|"+hc.kind, fmt.Sprintf("one input line produced %d output lines (mode %s)", len(seg), m.name), c07Replay(m, hc, seg))
		return
	}
	if len(seg) <= 1 && (hc.kind == "mutant" || hc.kind == "truncation") {
		o := "(no output line)"
		if len(seg) == 1 {
			o = short(seg[0], 300)
		}
		c.Sample(map[string]any{"mode": m.name, "kind": hc.kind, "hostile_input": short(hc.raw, 300), "output_between_sentinels": o})
	}
	if len(seg) == 1 {
		if _, err := jt.ParseObject(seg[0]); err != nil {
			c.Violation("ill-formed-output|"+hc.kind, fmt.Sprintf("the output line of a hostile input is not one well-formed JSON object: %v (mode %s): %s", err, m.name, short(seg[0], 200)), c07Replay(m, hc, seg))
		}
	}
}

func c07Replay(m c07Mode, hc c07Case, seg [][]byte) map[string]any {
	o := ""
	for _, s := range seg {
		o += string(s) + "\n"
	}
	return map[string]any{"kind": "redact-line", "flags": m.f.Args(0, "KEYFILE"), "input": string(hc.raw), "output": o}
}

// c07RunCLI pushes cases through sandwiches; an unclean sandwich is bisected
// until the offending line is alone.
func c07RunCLI(s *sut.SUT, c *ev.Check, m c07Mode, variant int, cases []c07Case) {
	if len(cases) == 0 {
		return
	}
	lines := make([][]byte, len(cases))
	for i, hc := range cases {
		lines[i] = hc.raw
	}
	segs, clean, why, r := c07Sandwich(s, m, variant, lines)
	c.Count("cli_runs", 1)
	if clean {
		for i, hc := range cases {
			c07Judge(c, m, hc, segs[i])
			c.Eval(m.name + "|" + string(hc.raw))
		}
		return
	}
	if why == "watchdog" {
		c.Inconclusive("watchdog fired on a sandwich run")
		return
	}
	if len(cases) == 1 {
		hc := cases[0]
		c.Violation("run-aborted|"+hc.kind+"|"+m.name, fmt.Sprintf("a hostile line stops or crashes the run (%s; mode %s): %s", why, m.name, short(bytes.TrimSpace(r.Stderr), 300)), c07Replay(m, hc, segs[0]))
		return
	}
	mid := len(cases) / 2
	c07RunCLI(s, c, m, variant, cases[:mid])
	c07RunCLI(s, c, m, variant, cases[mid:])
}

func c07Fixtures(repo string) [][]byte {
	var out [][]byte
	files, _ := filepath.Glob(filepath.Join(repo, "test_fixtures", "*.json"))
	for _, f := range files {
		b, err := os.ReadFile(f)
		if err != nil {
			continue
		}
		// the fixtures are pretty-printed: re-serialise each as one line
		if t, err := jt.ParseObject(b); err == nil && t.Has("attr") {
			out = append(out, t.Bytes(jt.Plain))
		}
	}
	return out
}

var c07Kinds = func() []*jt.Node {
	e := func() *jt.Node { return &jt.Node{K: jt.Arr, Vals: []*jt.Node{}} }
	return []*jt.Node{jt.NullN(), jt.BoolN(true), jt.BoolN(false), jt.IntN(0), jt.IntN(12345), jt.NumN("-1.5e300"), jt.NumN("1e999"), jt.NumN("123456789012345678901234567890"), jt.StrN("str"), jt.StrN("$ref"), jt.StrN(""), jt.StrN("a@b.co"),
		jt.ObjN(), e(), jt.ArrN(e()), jt.ArrN(jt.ObjN()), jt.ArrN(jt.ArrN(jt.ObjN("k", jt.IntN(1)))), jt.ObjN("a", jt.ObjN()), jt.ObjN("$date", jt.ObjN("$oid", jt.NullN())), jt.ObjN("$binary", jt.ObjN("$binary", jt.ObjN("base64", jt.IntN(1)))),
		jt.ArrN(jt.NullN(), jt.StrN("$a"), jt.IntN(1), e(), jt.ObjN("$date", jt.IntN(5))), jt.ObjN("base64", jt.NullN(), "subType", jt.IntN(4)), jt.ObjN("$numberLong", jt.StrN("1")), jt.ObjN("", jt.StrN("")), jt.ObjN("$", jt.IntN(1)), jt.ObjN("$$", e())}
}()

var c07Wrappers = []string{"$date", "$oid", "$binary", "$numberLong", "$numberInt", "$numberDouble", "$numberDecimal", "$uuid", "$timestamp", "$regularExpression", "$minKey", "$maxKey", "$regex", "$options", "$symbol", "$code", "$dbPointer", "$undefined", "base64", "subType", "pattern"}

func c07Cases(c *ev.Check, g *gen.Gen, vocab []string, repo string, rng *rand.Rand) []c07Case {
	var cs []c07Case
	add := func(kind string, raw []byte) {
		if len(raw) < 60000 && !bytes.ContainsAny(raw, "\n") {
			cs = append(cs, c07Case{raw, kind})
		}
	}
	// (a) {zone} × {vocabulary key ∪ wrapper} × {value kind}
	pv := gen.ProbeValues()
	for zi, z := range gen.ProbeZones {
		for _, k := range vocab {
			for vi, v := range pv {
				if !thorough(c) && (zi+vi+len(k))%4 != 0 {
					continue
				}
				add("product:"+z, g.ProbeLine(z, k, v).Bytes(jt.Plain))
			}
		}
		for _, w := range c07Wrappers {
			for _, k := range c07Kinds {
				add("wrapper:"+z, g.ProbeLine(z, "f", jt.ObjN(w, k)).Bytes(jt.Plain))
				add("wrapper-in-array:"+z, g.ProbeLine(z, "f", jt.ObjN("$in", jt.ArrN(jt.ObjN(w, k), k))).Bytes(jt.Plain))
				if w == "$binary" {
					add("wrapper:"+z, g.ProbeLine(z, "f", jt.ObjN(w, jt.ObjN("base64", k, "subType", k))).Bytes(jt.Plain))
				}
			}
		}
	}
	c.Set("product_and_wrapper_lines", len(cs))
	// envelope: every structural key of the line holding every value kind
	envKeys := [][]string{{"t"}, {"s"}, {"c"}, {"id"}, {"ctx"}, {"msg"}, {"attr"}, {"attr", "ns"}, {"attr", "type"}, {"attr", "remote"}, {"attr", "planSummary"}, {"attr", "command"}, {"attr", "originatingCommand"}, {"attr", "cmd"}, {"attr", "error"},
		{"attr", "command", "filter"}, {"attr", "command", "query"}, {"attr", "command", "sort"}, {"attr", "command", "update"}, {"attr", "command", "updates"}, {"attr", "command", "deletes"}, {"attr", "command", "documents"}, {"attr", "command", "pipeline"}, {"attr", "command", "q"}, {"attr", "command", "u"},
		{"attr", "command", "find"}, {"attr", "command", "$db"}, {"attr", "command", "insert"}, {"attr", "command", "aggregate"}, {"attr", "command", "getMore"}, {"attr", "command", "collection"}}
	elemKinds := append([]*jt.Node{}, c07Kinds...)
	for _, path := range envKeys {
		for _, k := range elemKinds {
			for _, comp := range []string{"COMMAND", "WRITE", "NETWORK"} {
				base := jt.ObjN("t", jt.ObjN("$date", jt.StrN("2025-01-01T00:00:00.000Z")), "s", jt.StrN("I"), "c", jt.StrN(comp), "id", jt.IntN(1), "ctx", jt.StrN("conn1"), "msg", jt.StrN("Slow query"),
					"attr", jt.ObjN("type", jt.StrN("command"), "ns", jt.StrN("db1.c"), "command", jt.ObjN("find", jt.StrN("c"), "insert", jt.StrN("c"), "filter", jt.ObjN("a", jt.IntN(1)), "$db", jt.StrN("db1")), "planSummary", jt.StrN("IXSCAN { a: 1 }"), "remote", jt.StrN("1.2.3.4:5")))
				n := base
				for i, p := range path {
					if i == len(path)-1 {
						n.Set(p, k.Clone())
					} else {
						n = n.Get(p)
					}
				}
				add("envelope:"+strings.Join(path, "."), base.Bytes(jt.Plain))
				// the same kind as an ELEMENT of an array at that position
				n.Set(path[len(path)-1], jt.ArrN(k.Clone(), jt.ObjN("q", k.Clone(), "u", k.Clone(), "$match", k.Clone(), "$lookup", k.Clone(), "$facet", k.Clone(), "$search", k.Clone(), "$merge", k.Clone(), "$group", k.Clone())))
				add("envelope-array:"+strings.Join(path, "."), base.Bytes(jt.Plain))
			}
		}
	}
	// every special code point in keys and strings, inside and outside zones
	for _, t := range g.CharsetLines() {
		for _, st := range []jt.Style{jt.Plain, jt.GoLike, jt.Unicode} {
			add("charset", t.Bytes(st))
		}
	}
	for i := 0; i < 600; i++ {
		add("soup", g.OtherLine().Bytes(jt.Plain))
	}
	// names that are legal for a database / collection / field but mean something to a regular expression, a
	// format string or a path - in attr.ns, as the verb's collection, as field names, next to an error text
	for _, nm := range []string{"orders(eu", "c++", "tmp[2024", "jobs(*)", "a|b", "x{2,", "back\\slash", "per%cent%s", "star*", "q?", "caret^", "dollar$end", "..", "a..b", ".lead", "trail.", "sp ace", "tab\there"} {
		for _, comp := range []string{"COMMAND", "WRITE", "NETWORK"} {
			l := jt.ObjN("t", jt.ObjN("$date", jt.StrN("2025-01-01T00:00:00.000Z")), "s", jt.StrN("I"), "c", jt.StrN(comp), "id", jt.IntN(51803), "ctx", jt.StrN("conn1"), "msg", jt.StrN("Slow query"),
				"attr", jt.ObjN("type", jt.StrN("command"), "ns", jt.StrN("shop."+nm), "command", jt.ObjN("find", jt.StrN(nm), "filter", jt.ObjN(nm, jt.StrN("v"), "name", jt.ObjN("$in", jt.ArrN(jt.StrN(nm)))), "sort", jt.ObjN(nm, jt.IntN(1)), "$db", jt.StrN("shop")),
					"planSummary", jt.StrN("IXSCAN { "+nm+": 1 }"), "errMsg", jt.StrN("E11000 duplicate key error collection: shop."+nm+" index: "+nm+"_1 dup key: { "+nm+": \"v\" }"), "remote", jt.StrN("10.0.0.1:5"+nm)))
			add("odd-names", l.Bytes(jt.Plain))
		}
	}
	// (b) token classes in first position, legacy text lines, near-JSON
	for _, s := range c06NonJSON {
		add("non-json", []byte(s))
	}
	// (c) fixtures truncated at byte offsets + structural and byte-level mutants
	fx := c07Fixtures(repo)
	c.Set("fixture_lines", len(fx))
	nTrunc := pickN(c, 220, 1<<30)
	for _, f := range fx {
		step := 1
		if len(f) > nTrunc {
			step = len(f) / nTrunc
		}
		for off := 0; off < len(f); off += step {
			add("truncation", f[:off])
			c.Count("truncations", 1)
		}
	}
	nMut := pickN(c, 5000, 100000)
	var trees []*jt.Node
	for _, f := range fx {
		if t, err := jt.ParseObject(f); err == nil {
			trees = append(trees, t)
		}
	}
	for i := 0; i < nMut && len(trees) > 0; i++ {
		t := trees[rng.Intn(len(trees))].Clone()
		for k, n := 0, 1+rng.Intn(3); k < n; k++ {
			c07Mutate(rng, t, trees, vocab)
		}
		raw := t.Bytes([]jt.Style{jt.Plain, jt.GoLike, jt.Unicode}[i%3])
		if i%3 == 0 { // byte-level damage on top
			raw = append([]byte{}, raw...)
			for k, n := 0, 1+rng.Intn(3); k < n && len(raw) > 2; k++ {
				p := rng.Intn(len(raw))
				switch rng.Intn(3) {
				case 0:
					raw[p] = "{}[]\",:\\09eEtfn "[rng.Intn(16)]
				case 1:
					raw = append(raw[:p], raw[p+1:]...)
				case 2:
					raw = append(raw[:p], append([]byte{"{}[]\",:"[rng.Intn(7)]}, raw[p:]...)...)
				}
			}
			raw = bytes.ReplaceAll(raw, []byte("\n"), []byte(" "))
		}
		add("mutant", raw)
		c.Count("mutants", 1)
	}
	// (d) extreme nesting inside and outside the zones
	for _, depth := range []int{50, 500, 3000, 9000} {
		for _, shape := range []string{"obj", "arr", "in", "and", "pipeline-facet", "expr"} {
			var open, cl string
			switch shape {
			case "obj":
				open, cl = `{"a":`, `}`
			case "arr":
				open, cl = `[`, `]`
			case "in":
				open, cl = `{"$in":[`, `]}`
			case "and":
				open, cl = `{"$and":[`, `]}`
			case "pipeline-facet":
				open, cl = `[{"$facet":{"f":`, `}}]`
			case "expr":
				open, cl = `{"$cond":[`, `,1,2]}`
			}
			d := depth
			if (len(open)+len(cl))*d > 56000 {
				d = 56000 / (len(open) + len(cl))
			}
			inner := strings.Repeat(open, d) + `"deep"` + strings.Repeat(cl, d)
			for _, place := range []string{`"filter":{"f":%s}`, `"pipeline":[{"$match":{"f":%s}},{"$addFields":{"g":%s}}]`, `"documents":[{"f":%s}],"insert":"c"`, `"comment":%s`} {
				cmd := strings.ReplaceAll(place, "%s", inner)
				if len(cmd) > 60000 {
					cmd = strings.Replace(place, "%s", inner, 1)
					cmd = strings.ReplaceAll(cmd, "%s", "1")
				}
				add("deep-nesting:"+shape, []byte(`{"t":{"$date":"2025-01-01T00:00:00.000Z"},"s":"I","c":"COMMAND","id":1,"ctx":"c","msg":"Slow query","attr":{"ns":"db1.c","command":{"find":"c",`+cmd+`,"$db":"db1"}}}`))
			}
			add("deep-nesting-outside:"+shape, []byte(`{"c":"NETWORK","attr":{"x":`+inner+`}}`))
		}
	}
	return cs
}

func c07Mutate(rng *rand.Rand, t *jt.Node, trees []*jt.Node, vocab []string) {
	// collect nodes
	var nodes []*jt.Node
	t.Walk(nil, func(_ []string, n *jt.Node) { nodes = append(nodes, n) })
	n := nodes[rng.Intn(len(nodes))]
	switch rng.Intn(7) {
	case 0: // swap a value for another kind
		*n = *c07Kinds[rng.Intn(len(c07Kinds))].Clone()
	case 1: // delete a key / element
		if (n.K == jt.Obj || n.K == jt.Arr) && len(n.Vals) > 0 {
			i := rng.Intn(len(n.Vals))
			n.Vals = append(n.Vals[:i:i], n.Vals[i+1:]...)
			if n.K == jt.Obj {
				n.Keys = append(n.Keys[:i:i], n.Keys[i+1:]...)
			}
		}
	case 2: // duplicate a key (duplicate sibling keys are legal bytes on a line)
		if n.K == jt.Obj && len(n.Vals) > 0 {
			i := rng.Intn(len(n.Vals))
			n.Keys = append(n.Keys, n.Keys[i])
			n.Vals = append(n.Vals, c07Kinds[rng.Intn(len(c07Kinds))].Clone())
		}
	case 3: // splice a sub-tree of another fixture
		var donors []*jt.Node
		trees[rng.Intn(len(trees))].Walk(nil, func(_ []string, d *jt.Node) { donors = append(donors, d) })
		*n = *donors[rng.Intn(len(donors))].Clone()
	case 4: // rename a key to an operator / wrapper name
		if n.K == jt.Obj && len(n.Keys) > 0 {
			n.Keys[rng.Intn(len(n.Keys))] = vocab[rng.Intn(len(vocab))]
		}
	case 5: // wrap the value in an operator or wrapper
		old := *n
		oc := old
		*n = *jt.ObjN(append(c07Wrappers, vocab...)[rng.Intn(len(c07Wrappers)+len(vocab))], &oc)
	case 6: // turn an object into an array of its values or vice versa
		if n.K == jt.Obj {
			n.K, n.Keys = jt.Arr, nil
		} else if n.K == jt.Arr {
			n.K = jt.Obj
			n.Keys = make([]string, len(n.Vals))
			for i := range n.Keys {
				n.Keys[i] = vocab[rng.Intn(len(vocab))] + fmt.Sprint(i)
			}
		}
	}
}

func C07() int {
	s, c, g, ok := setup("C07", "exploration")
	if !ok {
		return c.Finish("build failed")
	}
	defer s.Close()
	rng := rand.New(rand.NewSource(c.Seed*7001 + 7))
	if os.Getenv("VERIF_C07_ONLY") == "fuzz" { // development aid: the fuzzing stage alone
		c07Fuzz(s, c)
		c.Sample(map[string]any{"stage": "fuzz only"})
		return c.Finish("fuzzing stage only (development aid)")
	}
	vocab := Vocabulary(s, c)
	cases := c07Cases(c, g, vocab, s.Repo, rng)
	c.Set("hostile_lines", len(cases))
	kinds := map[string]int{}
	for _, hc := range cases {
		kinds[strings.SplitN(hc.kind, ":", 2)[0]]++
	}
	c.Set("hostile_lines_by_kind", kinds)

	// ---- channel B: everything, every mode, in-process with per-call recover
	type ajob struct {
		m      c07Mode
		lo, hi int
	}
	var ajobs []ajob
	const chunk = 4000
	for mi, m := range c07Modes {
		if !thorough(c) && mi%2 == 1 {
			continue // quick tier: modes 0,2,4 in-process over ALL lines; the CLI sandwiches rotate over all 6
		}
		for lo := 0; lo < len(cases); lo += chunk {
			hi := lo + chunk
			if hi > len(cases) {
				hi = len(cases)
			}
			ajobs = append(ajobs, ajob{m, lo, hi})
		}
	}
	runAgentJob := func(jb ajob) {
		m, lo, hi := jb.m, jb.lo, jb.hi
		ls := make([]string, hi-lo)
		for i := range ls {
			ls[i] = string(cases[lo+i].raw)
		}
		recs, crashed, res, err := s.Agent([]sut.AgentCmd{setCmd(m.f), {"op": "redact", "lines": ls}}, nil, 0)
		if err != nil || len(recs) < 2 {
			if crashed >= 0 {
				c.Violation("process-fatal|"+m.name, fmt.Sprintf("the in-process channel died (not a recoverable panic) in mode %s: %s", m.name, short(res.Stderr, 400)), nil)
			} else {
				c.Inconclusive("agent: " + firstLine(fmt.Sprint(err)))
			}
			return
		}
		outs, _ := recs[1]["outs"].([]any)
		for i, o := range outs {
			mm, _ := o.(map[string]any)
			hc := cases[lo+i]
			c.Count("in_process_calls", 1)
			if p, bad := mm["panic"]; bad {
				c.Violation("panic|"+hc.kind+"|"+m.name, fmt.Sprintf("RedactMongoLog/MarshalOrdered panicked (mode %s): %v", m.name, trunc(fmt.Sprint(p), 200)), c07Replay(m, hc, nil))
				continue
			}
			if out, has := mm["out"].(string); has {
				if strings.ContainsAny(out, "\n\r") {
					c.Violation("raw-newline|"+hc.kind, "in-process output holds a raw line break", c07Replay(m, hc, [][]byte{[]byte(out)}))
				} else if _, perr := jt.ParseObject([]byte(out)); perr != nil {
					c.Violation("ill-formed-output|"+hc.kind, fmt.Sprintf("in-process output is not one well-formed JSON object: %v (mode %s): %s", perr, m.name, trunc(out, 200)), c07Replay(m, hc, [][]byte{[]byte(out)}))
				}
			}
		}
	}
	if err := s.BuildAgent(); err != nil {
		c.Inconclusive("agent build failed: " + firstLine(err.Error()))
	}
	// ---- channel A: sandwiches through the real CLI
	type job struct {
		m      c07Mode
		lo, hi int
	}
	var jobs []job
	const per = 250
	for mi, m := range c07Modes {
		for lo := 0; lo < len(cases); lo += per {
			// quick tier: every line under 2 of the 6 modes (rotating), thorough: all
			if !thorough(c) && (lo/per+mi)%3 != 0 {
				continue
			}
			hi := lo + per
			if hi > len(cases) {
				hi = len(cases)
			}
			jobs = append(jobs, job{m, lo, hi})
		}
	}
	parallelDo(len(jobs)+len(ajobs), func(ji int) {
		if ji < len(ajobs) {
			runAgentJob(ajobs[ji])
			return
		}
		jb := jobs[ji-len(ajobs)]
		c07RunCLI(s, c, jb.m, ji, cases[jb.lo:jb.hi])
	})

	// ---- option walks in one long-lived process (no setter sequence may make a line panic)
	optionHistory(s, c, CoreCorpus(gen.New(c.Seed*77+7), 200))

	// ---- (f) lines around and beyond the reader's limit
	c07LongLines(s, c)
	c07DeepLongLines(s, c)

	// ---- (g) the hostile line as the very first / very last line of the input
	c07Edges(s, c, cases)

	// ---- (e) thorough tier: Go native coverage-guided fuzzing on a scratch copy
	if thorough(c) {
		c07Fuzz(s, c)
	}

	total := 0
	for _, m := range c07Modes {
		total += c.Counter("hostile_lines_judged_" + m.name)
	}
	raceVerdict(s, c)
	c.Set("sut_statement_coverage_percent", s.CoverFuncs())
	if total < 30000 || c.Counter("truncations") < 5000 || c.Counter("mutants") < 5000 {
		c.Inconclusive(fmt.Sprintf("too few observations: %d judged through the CLI, %d truncations, %d mutants", total, c.Counter("truncations"), c.Counter("mutants")))
	}
	return c.Finish("hostile lines — {zone}×{vocabulary key, extended-JSON wrapper}×{value kind}, every envelope key holding every value kind, every JSON token class / legacy text in first position, every fixture truncated at byte offsets, structural and byte-level mutants of fixtures, nesting up to the line limit — each between two sentinel lines through the real CLI (sentinel sequence complete and ordered, exit 0, ≤1 well-formed output line per hostile line) and through RedactMongoLog+MarshalOrdered in-process with per-call recover, under 6 modes incl. field-name, selective and encryption; plus lines at limit−1 / limit / limit+1 / 10×limit at first, middle and last position")
}

// c07LongLines: a line longer than the reader's limit may stop the run, but
// only with a non-zero exit and a message, never truncated or passed through.
func c07LongLines(s *sut.SUT, c *ev.Check) {
	mk := func(total int, marker string) []byte {
		head := `{"t":{"$date":"2025-01-01T00:00:00.000Z"},"s":"I","c":"COMMAND","id":1,"ctx":"` + marker + `","msg":"Slow query","attr":{"ns":"db1.c","command":{"find":"c","filter":{"name":"longSECRET` + marker
		tail := `"},"$db":"db1"},"keep":"KEEPTOKEN` + marker + `"}}`
		pad := total - len(head) - len(tail)
		if pad < 0 {
			pad = 0
		}
		return []byte(head + strings.Repeat("x", pad) + tail)
	}
	const limit = 64 * 1024
	type job struct {
		n    int
		pos  string
		outF bool
		ch   string // input channel: plain file, gzip file (one or two members), stdin
	}
	var jobs []job
	for _, n := range []int{limit - 2, limit - 1, limit, limit + 1, limit + 2, 2 * limit, 10 * limit} {
		for pi, pos := range []string{"first", "middle", "last", "last-no-newline"} {
			jobs = append(jobs, job{n, pos, false, "file"}, job{n, pos, true, "file"})
			// the same through the decompressing reader and through stdin (stdin cannot go with -o
			// under --encrypt only; plain -o is fine)
			jobs = append(jobs, job{n, pos, pi%2 == 0, "gz"}, job{n, pos, pi%2 == 1, "gz2"}, job{n, pos, pi%2 == 0, "stdin"})
		}
	}
	parallelDo(len(jobs), func(ji int) {
		jb := jobs[ji]
		dir := s.TempDir("c07long")
		defer os.RemoveAll(dir)
		long := mk(jb.n, "vqLONGm")
		before := [][]byte{c07Sentinel(0), c07Sentinel(1), c07Sentinel(2)}
		after := [][]byte{c07Sentinel(3), c07Sentinel(4)}
		var lines [][]byte
		nBefore := 0
		switch jb.pos {
		case "first":
			lines = append([][]byte{long}, append(before, after...)...)
		case "middle":
			lines = append(append(append([][]byte{}, before...), long), after...)
			nBefore = 3
		default:
			lines = append(append(append([][]byte{}, before...), after...), long)
			nBefore = 5
		}
		data := bytes.Join(lines, []byte("\n"))
		if jb.pos != "last-no-newline" {
			data = append(data, '\n')
		}
		in := filepath.Join(dir, "in.log")
		run := sut.Run{Dir: dir}
		args := []string{"redact"}
		switch jb.ch {
		case "file":
			os.WriteFile(in, data, 0o644)
			args = append(args, in)
		case "gz":
			in += ".gz"
			os.WriteFile(in, gz(data), 0o644)
			args = append(args, in)
		case "gz2":
			// two members, the boundary inside the long line
			in += ".gz"
			h := bytes.Index(data, long) + len(long)/2
			os.WriteFile(in, gz(data[:h], data[h:]), 0o644)
			args = append(args, in)
		case "stdin":
			run.Stdin = data
		}
		outp := filepath.Join(dir, "out.log")
		if jb.outF {
			args = append(args, "-o", outp)
		}
		run.Args = args
		r := s.CLI(run)
		out := r.Stdout
		if jb.outF {
			out, _ = os.ReadFile(outp)
		}
		c.Count("long_line_runs", 1)
		c.Eval(fmt.Sprintf("long|%d|%s|%v|%s", jb.n, jb.pos, jb.outF, jb.ch))
		desc := map[string]any{"kind": "long-line", "line_bytes": jb.n, "position": jb.pos, "to_output_file": jb.outF, "input_channel": jb.ch}
		viol := func(kind, what string) {
			c.Violation("long-line-"+kind, fmt.Sprintf("line of %d bytes at position %s (input: %s): %s (exit %d, stderr %s)", jb.n, jb.pos, jb.ch, what, r.Exit, short(bytes.TrimSpace(r.Stderr), 160)), desc)
		}
		if r.TimedOut {
			c.Inconclusive("watchdog")
			return
		}
		if sut.Crashed(r.Stderr) {
			viol("crash", "runtime crash")
			return
		}
		ols := splitLines(out)
		// which sentinels came out, in order
		k := 0
		hasLong := false
		for _, ol := range ols {
			if bytes.Contains(ol, []byte("vqLONGm")) || bytes.Contains(ol, []byte("KEEPTOKEN")) || bytes.Contains(ol, []byte("xxxxxxxxxxxxxxxx")) {
				hasLong = true
				t, err := jt.ParseObject(ol)
				if err != nil {
					viol("passed-through-or-truncated", "a part of the long line was emitted that is not a complete JSON object")
					return
				}
				if kp := t.Get("attr").Get("keep"); kp == nil || kp.S != "KEEPTOKENvqLONGm" || bytes.Contains(ol, []byte("longSECRET")) {
					viol("passed-through-or-truncated", "the long line was emitted truncated or unredacted")
					return
				}
				continue
			}
			if bytes.Contains(ol, []byte(fmt.Sprintf(`"ctx":"vqS%dm"`, k))) {
				k++
			} else {
				viol("unexpected-output", "unexpected output line: "+short(ol, 120))
				return
			}
		}
		if r.Exit == 0 {
			// processed as an ordinary line: everything must be there
			if k != 5 || !hasLong {
				viol("silent-loss", fmt.Sprintf("exit 0 but only %d of 5 other lines and long-line output=%v", k, hasLong))
			}
			if jb.n > limit+1 {
				c.Count("over_limit_lines_processed_normally", 1)
			}
			return
		}
		// explicit stop: allowed only for a line beyond the limit
		if jb.n < limit-1 {
			viol("stop-below-limit", "the run stopped although the line is below the reader's limit")
		}
		if len(bytes.TrimSpace(r.Stderr)) == 0 {
			viol("stop-without-message", "non-zero exit without an error message")
		}
		if hasLong {
			viol("passed-through-or-truncated", "the run failed on the long line but still emitted something derived from it")
		}
		if k != nBefore {
			viol("lines-before-lost", fmt.Sprintf("%d lines precede the long line but %d came out", nBefore, k))
		}
		c.Count("over_limit_lines_rejected_with_error", 1)
	})
}

// c07DeepLongLines: lines far beyond the reader's 64 KiB limit that are also deeply nested (millions
// of containers, closed or not). Whatever the limit is, the run either handles such a line or stops
// with a message; it never dies with a runtime crash (stack exhaustion is fatal in Go, recover()
// does not see it), and the lines before it are there.
func c07DeepLongLines(s *sut.SUT, c *ev.Check) {
	head := `{"t":{"$date":"2025-01-01T00:00:00.000Z"},"s":"I","c":"COMMAND","id":1,"ctx":"vqDEEPm","msg":"Slow query","attr":{"ns":"db1.c","command":{"find":"c","filter":{"a":`
	tail := `},"$db":"db1"}}}`
	type job struct {
		name string
		line func() []byte
		ch   string
	}
	nest := func(open, cls string, n int, closed bool) func() []byte {
		return func() []byte {
			var b bytes.Buffer
			b.Grow(len(head) + len(tail) + n*(len(open)+len(cls)) + 8)
			b.WriteString(head)
			for i := 0; i < n; i++ {
				b.WriteString(open)
			}
			b.WriteString("1")
			if closed {
				for i := 0; i < n; i++ {
					b.WriteString(cls)
				}
				b.WriteString(tail)
			}
			return b.Bytes()
		}
	}
	raw := func(ch byte, n int) func() []byte { return func() []byte { return bytes.Repeat([]byte{ch}, n) } }
	var jobs []job
	for _, ch := range []string{"file", "stdin"} {
		jobs = append(jobs,
			job{"arrays-closed-40k", nest("[", "]", 40000, true), ch},
			job{"objects-closed-30k", nest(`{"d":`, "}", 30000, true), ch},
			job{"arrays-closed-5M", nest("[", "]", 5000000, true), ch},
			job{"arrays-open-6M", raw('[', 6000000), ch},
			job{"objects-open-2M", nest(`{"d":`, "}", 2000000, false), ch})
	}
	if !thorough(c) {
		jobs = jobs[:7] // quick tier: all five through a file, two through stdin
	}
	parallelDoN(3, len(jobs), func(ji int) {
		jb := jobs[ji]
		dir := s.TempDir("c07deep")
		defer os.RemoveAll(dir)
		before := [][]byte{c07Sentinel(0), c07Sentinel(1), c07Sentinel(2)}
		after := [][]byte{c07Sentinel(3), c07Sentinel(4)}
		deep := jb.line()
		data := append(bytes.Join(append(append(append([][]byte{}, before...), deep), after...), []byte("\n")), '\n')
		run := sut.Run{Dir: dir, Args: []string{"redact"}, Timeout: 5 * time.Minute}
		if jb.ch == "file" {
			in := filepath.Join(dir, "in.log")
			os.WriteFile(in, data, 0o644)
			run.Args = append(run.Args, in)
		} else {
			run.Stdin = data
		}
		r := s.CLI(run)
		c.Count("deep_long_line_runs", 1)
		c.Eval(fmt.Sprintf("deep-long|%s|%s", jb.name, jb.ch))
		desc := map[string]any{"kind": "deep-long-line", "shape": jb.name, "line_bytes": len(deep), "input_channel": jb.ch}
		viol := func(kind, what string) {
			c.Violation("deep-long-line-"+kind, fmt.Sprintf("line %s of %d bytes (input: %s): %s (exit %d, stderr %s)", jb.name, len(deep), jb.ch, what, r.Exit, short(bytes.TrimSpace(r.Stderr), 200)), desc)
		}
		if r.TimedOut {
			c.Inconclusive("watchdog")
			return
		}
		if sut.Crashed(r.Stderr) || r.Exit == 2 || r.Exit < 0 || r.Exit > 128 {
			viol("crash", "the process died instead of handling the line or stopping with a message")
			return
		}
		k := 0
		for _, ol := range splitLines(r.Stdout) {
			if bytes.Contains(ol, []byte(fmt.Sprintf(`"ctx":"vqS%dm"`, k))) {
				k++
			} else if !bytes.Contains(ol, []byte("vqDEEPm")) {
				viol("unexpected-output", "unexpected output line: "+short(ol, 120))
				return
			}
		}
		if r.Exit == 0 {
			if k != 5 {
				viol("silent-loss", fmt.Sprintf("exit 0 but only %d of the 5 ordinary lines came out", k))
			}
			c.Count("deep_long_lines_processed_normally", 1)
			return
		}
		if len(bytes.TrimSpace(r.Stderr)) == 0 {
			viol("stop-without-message", "non-zero exit without an error message")
		}
		if k != 3 {
			viol("lines-before-lost", fmt.Sprintf("3 lines precede the deep line but %d came out", k))
		}
		c.Count("deep_long_lines_rejected_with_error", 1)
	})
}

// c07Fuzz runs the fuzz target of harness/agent/fuzz on a scratch copy of the
// repository (native fuzzing needs a writable package directory), bounded by
// execution count.
func c07Fuzz(s *sut.SUT, c *ev.Check) {
	copyDir := filepath.Join(s.Scratch, "fuzzcopy")
	if out, err := exec.Command("rsync", "-a", "--exclude", ".git", s.Repo+"/", copyDir+"/").CombinedOutput(); err != nil {
		c.Set("fuzzing", "skipped: rsync failed: "+string(out))
		return
	}
	defer os.RemoveAll(copyDir)
	src, err := os.ReadFile(filepath.Join(s.Verif, "harness", "agent", "fuzz", "fuzz_test.go"))
	if err != nil {
		c.Set("fuzzing", "skipped: fuzz target missing")
		return
	}
	os.WriteFile(filepath.Join(copyDir, "src", "zz_verif_fuzz_test.go"), src, 0o644)
	execs := "400000x"
	if v := os.Getenv("VERIF_FUZZ_EXECS"); v != "" {
		execs = v
	}
	cmd := exec.Command("go", "test", "-tags", "verif", "-vet=off", "-run", "^$", "-fuzz", "^FuzzVerifRedact$", "-fuzztime", execs, "./src")
	cmd.Dir = copyDir
	env := os.Environ()
	cmd.Env = append(env, "GOFLAGS=-mod=mod", "GOPROXY=off", "GOTOOLCHAIN=auto")
	done := make(chan struct{})
	var out []byte
	go func() { out, err = cmd.CombinedOutput(); close(done) }()
	select {
	case <-done:
	case <-time.After(40 * time.Minute):
		cmd.Process.Kill()
		<-done
		c.Set("fuzzing", "inconclusive: watchdog")
		return
	}
	o := string(out)
	tailN := o
	if len(tailN) > 1500 {
		tailN = tailN[len(tailN)-1500:]
	}
	c.Set("fuzzing_executions_requested", execs)
	c.Set("fuzzing_output_tail", tailN)
	if m := regexp.MustCompile(`execs: (\d+)`).FindAllStringSubmatch(o, -1); len(m) > 0 {
		n, _ := strconv.Atoi(m[len(m)-1][1])
		c.Count("fuzz_executions", n)
	}
	if strings.Contains(o, "--- FAIL") || (err != nil && strings.Contains(o, "Failing input written to")) {
		input := ""
		if m := regexp.MustCompile(`Failing input written to (\S+)`).FindStringSubmatch(o); m != nil {
			b, _ := os.ReadFile(filepath.Join(copyDir, "src", m[1]))
			input = string(b)
		}
		c.Violation("fuzz-crash", "coverage-guided fuzzing of RedactMongoLog+MarshalOrdered found a failing input: "+short([]byte(tailN), 600), map[string]any{"kind": "fuzz", "go_fuzz_corpus_entry": input, "output_tail": tailN})
	} else if err != nil {
		c.Set("fuzzing", "inconclusive: go test -fuzz failed to run: "+firstLine(tailN))
	}
}

// c07Edges: "placed at any position of a multi-line input" includes the edges, which the
// sandwiches never exercise (they open and close with a sentinel): the hostile line as the FIRST
// line (start-of-stream handling: byte-order marks, sniffing) and as the LAST line with and without
// a final newline, through a file and through stdin.
func c07Edges(s *sut.SUT, c *ev.Check, cases []c07Case) {
	var pick []c07Case
	for _, x := range [][]byte{{}, []byte("\r"), []byte(" "), []byte("{}"), []byte("[]"), []byte("1"), []byte("x"), []byte("ab"), []byte("{"), []byte("}"), []byte("\xef\xbb\xbf"), []byte("\xef\xbb"), []byte("\xef"), []byte("\xff\xfe"), []byte("\xef\xbb\xbf{}"),
		append([]byte("\xef\xbb\xbf"), c07Sentinel(900)...), []byte("\x00"), []byte("\x1f\x8b"), []byte("\x1f\x8b\x08")} {
		pick = append(pick, c07Case{raw: x, kind: "edge-short"})
	}
	for i, hc := range cases {
		if len(hc.raw) <= 12 || i%97 == 0 {
			pick = append(pick, hc)
		}
	}
	c.Set("edge_position_lines", len(pick))
	parallelDo(len(pick)*4, func(j int) {
		hc, variant := pick[j/4], j%4
		m := c07Modes[(j/4)%len(c07Modes)]
		if m.f.Enc && variant >= 2 {
			m = c07Modes[0] // --encrypt needs a file argument
		}
		dir := s.TempDir("c07e")
		defer os.RemoveAll(dir)
		var buf bytes.Buffer
		first := variant%2 == 0
		if first {
			buf.Write(hc.raw)
			buf.WriteByte('\n')
			buf.Write(c07Sentinel(0))
			buf.WriteByte('\n')
			buf.Write(c07Sentinel(1))
			buf.WriteByte('\n')
		} else {
			buf.Write(c07Sentinel(0))
			buf.WriteByte('\n')
			buf.Write(c07Sentinel(1))
			buf.WriteByte('\n')
			buf.Write(hc.raw)
			if (j/4)%2 == 0 {
				buf.WriteByte('\n')
			}
		}
		key := filepath.Join(dir, "k.key")
		if m.f.Enc {
			os.WriteFile(key, []byte(TestKeyB64), 0o600)
		}
		args := append([]string{"redact"}, m.f.Args(j, key)...)
		run := sut.Run{Dir: dir}
		outp := filepath.Join(dir, "out.log")
		if variant < 2 {
			in := filepath.Join(dir, "in.log")
			os.WriteFile(in, buf.Bytes(), 0o644)
			args = append(args, in)
			if m.f.Enc {
				args = append(args, "-o", outp)
			}
		} else {
			run.Stdin = buf.Bytes()
		}
		run.Args = args
		r := s.CLI(run)
		if r.TimedOut {
			c.Inconclusive("watchdog on an edge-position run")
			return
		}
		out := r.Stdout
		if variant < 2 && m.f.Enc {
			out, _ = os.ReadFile(outp)
		}
		c.Count("edge_position_runs", 1)
		c.Eval(fmt.Sprintf("edge|%d|%d|%s", j/4, variant, m.name))
		pos := map[bool]string{true: "first", false: "last"}[first]
		rp := c07Replay(m, hc, splitLines(out))
		rp["position"], rp["channel"] = pos, map[bool]string{true: "file", false: "stdin"}[variant < 2]
		if r.Exit != 0 || sut.Crashed(r.Stderr) {
			c.Violation("run-aborted|"+pos+"-line|"+hc.kind, fmt.Sprintf("the hostile line %q as the %s line of the input: exit %d %s: %s (mode %s)", short(hc.raw, 40), pos, r.Exit, r.Signal, short(bytes.TrimSpace(r.Stderr), 200), m.name), rp)
			return
		}
		ls := splitLines(out)
		var sent []int
		extra := 0
		for i, ln := range ls {
			if bytes.Contains(ln, []byte(`"ctx":"vqS0m"`)) || bytes.Contains(ln, []byte(`"ctx":"vqS1m"`)) {
				sent = append(sent, i)
			} else {
				extra++
				if _, err := jt.ParseObject(ln); err != nil {
					c.Violation("ill-formed-output|"+pos+"-line|"+hc.kind, fmt.Sprintf("output line %d is not one well-formed JSON object (hostile line %s): %s", i, pos, short(ln, 160)), rp)
				}
			}
		}
		if len(sent) != 2 || extra > 1 {
			c.Violation("lines-lost-or-added|"+pos+"-line|"+hc.kind, fmt.Sprintf("hostile line %q as the %s line: %d of the 2 ordinary lines came out, %d other lines (mode %s)", short(hc.raw, 40), pos, len(sent), extra, m.name), rp)
		}
	})
}
