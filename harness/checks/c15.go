package checks

import (
	"bytes"
	"fmt"
	"regexp"
	"strconv"
	"strings"

	"verif/ev"
	"verif/gen"
	"verif/jt"
)

// C15: field-name redaction renames consistently, completely, only in chosen
// namespaces.

var c15Zones = map[string]bool{"filter": true, "query": true, "q": true, "u": true, "update": true, "updates": true, "sort": true, "documents": true, "pipeline": true, "deletes": true}

var reIxscan = regexp.MustCompile(`[A-Z][A-Z_0-9]* \{ ([^}]*) \}`)

// c15SummaryKeys tokenises a plan summary into index-key lists per IXSCAN clause.
func c15SummaryKeys(s string) ([][]string, bool) {
	var out [][]string
	rest := s
	for _, m := range reIxscan.FindAllStringSubmatch(s, -1) {
		var ks []string
		for _, kv := range strings.Split(m[1], ", ") {
			i := strings.LastIndex(kv, ": ")
			if i < 0 {
				return nil, false
			}
			ks = append(ks, kv[:i])
		}
		out = append(out, ks)
		rest = strings.Replace(rest, m[0], "", 1)
	}
	// what remains must be separators only
	if strings.Trim(rest, ", ") != "" {
		return out, false
	}
	return out, true
}

type c15Map struct {
	n2p, p2n map[string]string
	form     *regexp.Regexp
}

// expect checks that out is the component-wise pseudonym of in and records the mapping.
func (m *c15Map) expect(c *ev.Check, in, out, where string, sn Seen) {
	ic, oc := strings.Split(in, "."), strings.Split(out, ".")
	if out == in {
		c.Violation("name-not-renamed|"+where, fmt.Sprintf("field name %q at %s is emitted unchanged under --redactFieldNames", in, where), replayOf(sn, nil))
		return
	}
	if len(ic) != len(oc) {
		c.Violation("path-depth-changed|"+where, fmt.Sprintf("field path %q (%d components) at %s became %q (%d components)", in, len(ic), where, trunc(out, 80), len(oc)), replayOf(sn, nil))
		return
	}
	for k := range ic {
		if !m.form.MatchString(oc[k]) {
			c.Violation("pseudonym-form|"+where, fmt.Sprintf("component %q of %q at %s became %q, not <replacement>_<16 hex>", ic[k], in, where, trunc(oc[k], 60)), replayOf(sn, nil))
			continue
		}
		if prev, seen := m.n2p[ic[k]]; seen && prev != oc[k] {
			c.Violation("inconsistent-pseudonym|"+where, fmt.Sprintf("field name %q has two pseudonyms: %q elsewhere and %q at %s (the renamed fields no longer line up)", ic[k], prev, oc[k], where), replayOf(sn, nil))
		}
		if prev, seen := m.p2n[oc[k]]; seen && prev != ic[k] {
			c.Violation("pseudonym-collision", fmt.Sprintf("field names %q and %q share the pseudonym %q", prev, ic[k], oc[k]), replayOf(sn, nil))
		}
		m.n2p[ic[k]], m.p2n[oc[k]] = oc[k], ic[k]
		c.Count("name_components_mapped", 1)
	}
}

func c15Planted(key string, names map[string]bool) bool {
	if key == "" {
		return false
	}
	for _, comp := range strings.Split(key, ".") {
		if !names[comp] {
			return false
		}
	}
	return true
}

func C15() int {
	s, c, g, ok := setup("C15", "exploration")
	if !ok {
		return c.Finish("build failed")
	}
	defer s.Close()
	g.NoKeywordFields = true
	g.LongMax = 100
	nlogs := pickN(c, 260, 3000)
	verbs := []string{"find", "update", "insert", "aggregate", "wupdate"}
	relSeen := map[string]int{}
	sumForms := map[string]int{}
	type lineT struct {
		fc      *gen.FnCase
		it      Item
		matches bool
		rel     string
	}
	type logT struct {
		prefix string
		lines  []lineT
		flags  Flags
	}
	logs := make([]logT, nlogs)
	for li := range logs {
		pool := g.FnPool()
		dbm, collm := "dbfn"+g.Token()[2:8], "coll"+g.Token()[2:7]
		if li%8 == 5 {
			// collection names may hold characters that mean something in a regular expression; the
			// configured prefix is plain text all the same
			collm = []string{"c+(", "c[1]*", "c|x?", "c^$", "c{2}\\"}[li/8%5] + collm + []string{")+", "$main", ".*", "|", "(x)"}[li/8%5]
		}
		var prefix, rel string
		switch li % 4 {
		case 0:
			prefix, rel = dbm+"."+collm, "equal"
		case 1:
			prefix, rel = dbm, "db-prefix"
		case 2:
			prefix, rel = dbm+"."+collm[:3], "prefix-into-collection"
		case 3:
			prefix, rel = dbm[:5], "partial-db-prefix"
		}
		lg := logT{prefix: prefix, flags: Flags{F: prefix}}
		if li%5 == 1 {
			lg.flags.N, lg.flags.B = true, true
		}
		if li%7 == 3 {
			lg.flags.R = sp("[x]")
		}
		if li%6 == 4 {
			lg.flags.W = true // together with --redactNamespaces (the flag-off run keeps -w)
		}
		if li%3 == 2 {
			// the flag may be repeated: further prefixes that match none of the log's namespaces (one
			// extends the main prefix and sorts before every namespace of the log, one sorts after,
			// one is unrelated) change nothing
			lg.flags.FMore = []string{prefix + ".a", "zzz" + g.Token()[2:7], prefix + "~", "aaa" + g.Token()[2:6]}
		}
		for k := 0; k < 10; k++ {
			verb := verbs[(li+k)%len(verbs)]
			car := gen.Carriers[(li+k/2)%3]
			db, coll, matches, r := dbm, collm, true, rel
			switch k % 5 {
			case 3: // foreign namespaces
				switch (li + k) % 6 {
				case 4, 5:
					// differs from the configured prefix only where the prefix has its '.'
					if strings.Contains(prefix, ".") {
						db, coll, r = dbm+[]string{"_", "X", "-", "0"}[(li+k)%4]+collm, "items", "foreign:differs-only-at-the-dot-of-the-prefix"
					} else {
						db, r = "zz"+g.Token()[2:6], "foreign:different-db"
					}
				case 0:
					db, r = "other"+dbm, "foreign:prefix-is-an-infix"
				case 1:
					db, r = "zz"+g.Token()[2:6], "foreign:different-db"
				case 2:
					coll, r = "zz"+collm, "foreign:different-collection"
					if rel == "db-prefix" || rel == "partial-db-prefix" {
						r = rel // still matches: the prefix only covers the database part
					}
				case 3:
					db, r = strings.ToUpper(dbm), "foreign:case-differs"
				}
				matches = strings.HasPrefix(db+"."+coll, prefix)
			}
			fc := g.FnLine(pool, verb, db, coll, car)
			// error reports may carry no attr.ns at all: then the namespace does not start with the prefix
			if ns := fc.Line.Get("attr").Get("ns"); ns == nil {
				matches, r = false, "foreign:no-attr.ns"
			}
			lg.lines = append(lg.lines, lineT{fc, mkItem(fc.Case, li+k), matches, r})
			relSeen[r]++
			switch {
			case fc.Summary == "":
			case len(fc.SumKeys) == 0:
				sumForms[fc.Summary]++
			case len(fc.SumKeys) == 1 && len(fc.SumKeys[0]) == 1:
				sumForms["IXSCAN single"]++
			case len(fc.SumKeys) == 1:
				sumForms["IXSCAN compound"]++
			default:
				sumForms["IXSCAN multiple"]++
			}
		}
		logs[li] = lg
	}
	parallelDo(nlogs, func(li int) {
		lg := logs[li]
		lines := make([][]byte, len(lg.lines))
		for i, l := range lg.lines {
			lines[i] = l.it.Raw
		}
		foff := lg.flags
		foff.F, foff.FMore = "", nil
		of := RunLines(s, lg.flags, li, lines)
		on := RunLines(s, foff, li, lines)
		m := &c15Map{n2p: map[string]string{}, p2n: map[string]string{}, form: regexp.MustCompile("^" + regexp.QuoteMeta(lg.flags.Replacement()) + "_[0-9a-f]{16}$")}
		for i, l := range lg.lines {
			sn := Seen{Item: l.it, Flags: lg.flags, Res: of[i]}
			if of[i].Out != nil {
				sn.Out, sn.OutErr = jt.ParseObject(of[i].Out)
			}
			if !basicOutcome(c, sn, true) {
				continue
			}
			c.Count("lines", 1)
			if !l.matches {
				c.Count("foreign_namespace_lines", 1)
				c.Eval("foreign|" + string(l.it.Raw))
				if !bytes.Equal(of[i].Out, on[i].Out) {
					c.Violation("foreign-namespace-altered|"+strings.TrimPrefix(l.rel, "foreign:"), fmt.Sprintf("line of namespace %s.%s (prefix configured: %q; relation %s) differs from the run without --redactFieldNames", l.fc.DB, l.fc.Coll, lg.prefix, l.rel),
						replayOf(sn, map[string]any{"flag_off_output": string(on[i].Out)}))
				}
				continue
			}
			tn, errN := jt.ParseObject(on[i].Out)
			if errN != nil {
				c.Count("flag_off_output_missing", 1)
				continue
			}
			names := map[string]bool{}
			for _, n := range l.fc.Names {
				names[n] = true
			}
			c15JudgeLine(c, m, sn, l.it.Tree, tn, sn.Out, names, l.fc)
			c.Eval("match|" + string(l.it.Raw) + lg.flags.String())
			if li < 3 && i < 2 {
				c.Sample(map[string]any{"flags": lg.flags.String(), "planted_names": l.fc.Names, "input": short(l.it.Raw, 600), "output": short(of[i].Out, 600)})
			}
		}
	})
	reportBatchAnomalies(c)
	c.Set("namespace_relations_seen", relSeen)
	c.Set("plan_summary_forms", sumForms)
	raceVerdict(s, c)
	if c.Counter("lines") < 2000 || c.Counter("foreign_namespace_lines") < 200 {
		c.Inconclusive("too few lines")
	}
	c.Assume("planted names are used only at the positions the statement lists; projection / hint / $group, $project, $addFields output keys hold fixed non-planted names and are not judged")
	c.Assume("'values are redacted as without the flag' is judged on sensitive leaves only; whether a renamed '$field' reference keeps its '$' is not judged")
	c.Assume("a line without attr.ns does not belong to a namespace starting with the prefix")
	return c.Finish("logs of 10 lines (one process each) over find / update / insert / aggregate / WRITE-style update whose user field names are planted identifiers (unique long names plus families that are substrings of each other, of 'IXSCAN', hex-looking, 1-letter, 'REDACTED'), dotted paths, plan summaries IXSCAN single / compound / multiple, COLLSCAN, IDHACK, EOF; configured prefix vs line namespace: equal, database prefix, prefix into the collection name, partial database prefix, infix, different, case differs, no attr.ns; oracles: whole-line leak search for long names, positional renaming check with a name↔pseudonym bimap per log across keys, '$field' references and plan-summary tokens, sibling count/order, value differential and byte differential against the flag-off run")
}

func c15JudgeLine(c *ev.Check, m *c15Map, sn Seen, in, nf, f *jt.Node, names map[string]bool, fc *gen.FnCase) {
	// carriers
	attrIn, attrNf, attrF := in.Get("attr"), nf.Get("attr"), f.Get("attr")
	if attrIn == nil || attrF == nil || attrNf == nil {
		return
	}
	var rec func(path []string, a, b, e *jt.Node, inZone bool)
	rec = func(path []string, a, b, e *jt.Node, inZone bool) {
		if a == nil || b == nil || e == nil || a.K != e.K || (a.K == jt.Obj && len(a.Keys) != len(e.Keys)) || (a.K == jt.Arr && len(a.Vals) != len(e.Vals)) {
			c.Violation("shape-changed|"+opSig(path), fmt.Sprintf("with --redactFieldNames the shape at %s changed (sibling count / kind)", jt.PathStr(path)), replayOf(sn, nil))
			return
		}
		switch a.K {
		case jt.Obj:
			seen := map[string]bool{}
			for i, k := range a.Keys {
				ok := e.Keys[i]
				if seen[ok] {
					c.Violation("duplicate-key-after-renaming|"+opSig(path), fmt.Sprintf("two sibling keys at %s come out as the same key %q", jt.PathStr(path), trunc(ok, 60)), replayOf(sn, nil))
				}
				seen[ok] = true
				if strings.HasPrefix(k, "$") {
					// operators and extended-JSON wrappers are not user-defined field names: a value is
					// "redacted as without the flag" only if the operator keys inside it are still there
					c.Count("operator_keys_checked", 1)
					if ok != k {
						c.Violation("operator-key-renamed|"+k, fmt.Sprintf("the operator / wrapper key %s at %s comes out as %q with --redactFieldNames: it is not a user-defined field name", k, jt.PathStr(path), trunc(ok, 60)), replayOf(sn, nil))
					}
				}
				if len(path) == 2 && !c15Zones[k] && (k == "projection" || k == "hint" || k == "skip" || k == "limit" || k == "lsid" || k == "ordered" || k == "cursor") && i < len(b.Vals) {
					// a member of the command document that is not query-bearing: --redactFieldNames adds only the plan
					// summary to what may change, so it equals the run without the flag (which carries the same other switches)
					c.Count("non_zone_command_members_compared", 1)
					if !bytes.Equal(nodeBytes(e.Vals[i]), nodeBytes(b.Vals[i])) || ok != k {
						c.Violation("non-zone-member-differs-from-flag-off|"+k, fmt.Sprintf("command member %s is %s without --redactFieldNames and %s: %s with it", k, short(nodeBytes(b.Vals[i]), 80), trunc(ok, 40), short(nodeBytes(e.Vals[i]), 80)), replayOf(sn, nil))
					}
				}
				z := inZone || (len(path) == 2 && c15Zones[k])
				if z && inZone && c15Planted(k, names) {
					m.expect(c, k, ok, "key:"+zoneOf(path), sn)
					c.Count("planted_keys_checked", 1)
				}
				var bv *jt.Node
				if b.K == jt.Obj && i < len(b.Vals) {
					bv = b.Vals[i]
				}
				rec(append(path[:len(path):len(path)], k), a.Vals[i], bv, e.Vals[i], z)
			}
		case jt.Arr:
			for i := range a.Vals {
				var bv *jt.Node
				if b.K == jt.Arr && i < len(b.Vals) {
					bv = b.Vals[i]
				}
				rec(append(path[:len(path):len(path)], "["+strconv.Itoa(i)+"]"), a.Vals[i], bv, e.Vals[i], inZone)
			}
		case jt.Str:
			if a.T != nil && a.T.Role == jt.Ref && strings.HasPrefix(a.S, "$") && c15Planted(a.S[1:], names) {
				m.expect(c, a.S[1:], strings.TrimLeft(e.S, "$"), "ref:"+zoneOf(path), sn)
				c.Count("field_references_checked", 1)
				return
			}
			if a.T != nil && a.T.Role == jt.Sens && b.K == jt.Str && b.S != e.S {
				c.Violation("value-differs-from-flag-off|"+opSig(path), fmt.Sprintf("sensitive value at %s is %q without the flag and %q with it", jt.PathStr(path), trunc(b.S, 50), trunc(e.S, 50)), replayOf(sn, nil))
			}
		case jt.Num:
			if a.T != nil && a.T.Role == jt.Sens && b.K == jt.Num && b.S != e.S {
				c.Violation("value-differs-from-flag-off|"+opSig(path), fmt.Sprintf("number at %s is %s without the flag and %s with it", jt.PathStr(path), b.S, e.S), replayOf(sn, nil))
			}
		}
	}
	for i, k := range attrIn.Keys {
		if k == "command" || k == "originatingCommand" || k == "cmd" {
			var bv *jt.Node
			if i < len(attrNf.Vals) {
				bv = attrNf.Vals[i]
			}
			if i < len(attrF.Vals) && attrIn.Vals[i].K == jt.Obj {
				rec([]string{"attr", k}, attrIn.Vals[i], bv, attrF.Vals[i], false)
			}
		}
	}
	// plan summary: same structure, index keys are the pseudonyms of the filter's names
	if len(fc.SumKeys) > 0 {
		if ps := attrF.Get("planSummary"); ps != nil && ps.K == jt.Str {
			ok, wellFormed := c15SummaryKeys(ps.S)
			c.Count("plan_summaries_checked", 1)
			if !wellFormed || len(ok) != len(fc.SumKeys) {
				c.Violation("plan-summary-corrupted", fmt.Sprintf("plan summary %q became %q: not %d IXSCAN clauses of 'key: direction' pairs any more", fc.Summary, trunc(ps.S, 200), len(fc.SumKeys)), replayOf(sn, nil))
			} else {
				for ci := range ok {
					if len(ok[ci]) != len(fc.SumKeys[ci]) {
						c.Violation("plan-summary-corrupted", fmt.Sprintf("plan summary %q became %q: clause %d has %d keys instead of %d", fc.Summary, trunc(ps.S, 200), ci, len(ok[ci]), len(fc.SumKeys[ci])), replayOf(sn, nil))
						continue
					}
					for ki := range ok[ci] {
						m.expect(c, fc.SumKeys[ci][ki], ok[ci][ki], "planSummary", sn)
					}
				}
			}
		}
	} else if fc.Summary != "" {
		if ps := attrF.Get("planSummary"); ps == nil || ps.S != fc.Summary {
			c.Violation("plan-summary-without-index-keys-altered", fmt.Sprintf("plan summary %q became %s", fc.Summary, nodeBytes(ps)), replayOf(sn, nil))
		}
	}
	// no planted name remains anywhere (long unique names: whole-line search)
	h := NewHaystack(sn.Res.Out, f)
	for n := range names {
		if len(n) >= 8 && n != "REDACTED" {
			c.Count("names_leak_searched", 1)
			if h.HasString(n) {
				c.Violation("name-visible", fmt.Sprintf("the planted field name %q is still visible somewhere in the emitted line", n), replayOf(sn, map[string]any{"name": n}))
			}
		}
	}
}

func zoneOf(path []string) string {
	for _, p := range path {
		if p == "$match" || p == "$sort" || p == "$addFields" || p == "$group" {
			return p
		}
	}
	if len(path) > 2 {
		return path[2]
	}
	return "?"
}
