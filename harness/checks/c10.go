package checks

import (
	"bytes"
	"encoding/base64"
	"fmt"
	"math/rand"
	"os"
	"path/filepath"
	"strconv"
	"strings"
	"sync"

	"verif/ev"
	"verif/gen"
	"verif/jt"
	"verif/sut"
)

// walk3 walks input, placeholder-mode output and encrypt-mode output in
// lock-step. A shape difference between the two outputs is reported through
// f with mism != "" and stops descent there.
func walk3(path []string, in, p, e *jt.Node, f func(path []string, in, p, e *jt.Node, mism string)) {
	mism := ""
	switch {
	case p == nil || e == nil || in == nil:
		mism = "missing"
	case p.K != e.K || in.K != p.K:
		mism = "kind"
	case p.K == jt.Obj && (len(p.Keys) != len(e.Keys) || len(in.Keys) != len(p.Keys)):
		mism = "keys"
	case p.K == jt.Arr && (len(p.Vals) != len(e.Vals) || len(in.Vals) != len(p.Vals)):
		mism = "length"
	case p.K == jt.Obj:
		for i := range p.Keys {
			if p.Keys[i] != e.Keys[i] {
				mism = "keys"
			}
		}
	}
	f(path, in, p, e, mism)
	if mism != "" {
		return
	}
	switch p.K {
	case jt.Obj:
		for i, k := range p.Keys {
			walk3(append(path[:len(path):len(path)], k), in.Vals[i], p.Vals[i], e.Vals[i], f)
		}
	case jt.Arr:
		for i := range p.Vals {
			walk3(append(path[:len(path):len(path)], "["+strconv.Itoa(i)+"]"), in.Vals[i], p.Vals[i], e.Vals[i], f)
		}
	}
}

// dupify rewrites a share of the sensitive ordinary-string / e-mail leaves of
// a tree with values from small pools of equal and near-duplicate strings.
func dupify(rng *rand.Rand, t *jt.Node, pool, epool []string) *jt.Node {
	c := t.Clone()
	long := false
	c.Walk(nil, func(_ []string, n *jt.Node) {
		if n.T == nil || n.T.Role != jt.Sens || n.K != jt.Str || rng.Intn(2) == 0 {
			return
		}
		switch n.T.Class {
		case "str":
			if len(n.S) > 0 && n.S[0] == '^' {
				return
			}
			v := pool[rng.Intn(len(pool))]
			if len(v) > 1000 {
				if long {
					return
				}
				long = true
			}
			n.S = v
		case "email":
			n.S = epool[rng.Intn(len(epool))]
		case "oid", "date", "b64":
			// the same value also under $oid / $date / $binary.base64: equal
			// plaintexts must give equal ciphertexts whatever the slot kind
			if rng.Intn(2) == 0 {
				n.S = pool[rng.Intn(3)]
			} else if rng.Intn(4) == 0 {
				// the class placeholder itself as the client's value
				n.S = map[string]string{"oid": "000000000000000000000000", "date": "1970-01-01T00:00:00.000Z", "b64": "AAAAAAAAAAAAAAAAAAA="}[n.T.Class]
			}
		}
	})
	return c
}

// C10: encryption is deterministic, injective, placeholder-equivalent and
// fail-closed.
func C10() int {
	s, c, g, ok := setup("C10", "exploration")
	if !ok {
		return c.Finish("build failed")
	}
	defer s.Close()
	rng := rand.New(rand.NewSource(c.Seed*977 + 10))
	g.LongMax = 300
	nfiles := pickN(c, 6, 40)
	perFile := pickN(c, 260, 600)
	keys := []string{TestKeyB64, randKeyB64(rng)}
	type bimap struct {
		mu    sync.Mutex
		pt2ct map[string]string
		ct2pt map[string]string
	}
	bms := make([]*bimap, len(keys))
	for i := range bms {
		bms[i] = &bimap{pt2ct: map[string]string{}, ct2pt: map[string]string{}}
	}
	type pendingDec struct {
		key       int
		ct, plain string
		where     string
		input     []byte
	}
	var pmu sync.Mutex
	var pend []pendingDec

	fsetsPairs := []Flags{{}, {N: true, B: true}, {I: true, W: true, R: sp("[x]")}, {N: true, R: sp("")}}
	parallelDo(nfiles, func(fi int) {
		gg := gen.New(c.Seed*1009 + int64(fi)*7 + 3)
		gg.LongMax = 300
		lr := rand.New(rand.NewSource(c.Seed*13 + int64(fi)))
		tok := gg.Token()
		hexid := gg.OID()
		pool := []string{hexid, "2024-01-02T03:04:05.678Z", "QUJD" + tok, "Alice" + tok, "alice" + tok, "Alice" + tok + " ", " Alice" + tok, "Аlice" + tok, "Alice" + tok + "​", tok, tok + tok, "", "A", "a", "é" + tok, "é" + tok, "Alice" + tok + "\x00", "Alice" + tok + "\x00\x00", "\x00", "ab", "ab\x00", tok + strings.Repeat("L", 16384-len(tok)), tok + strings.Repeat("L", 16385-len(tok)), tok + strings.Repeat("M", 20000),
			// values that ARE a placeholder text: sensitive all the same, so encrypt mode must still encrypt them
			"REDACTED", "[x]", "redacted@redacted.com", "1970-01-01T00:00:00.000Z", "000000000000000000000000", "AAAAAAAAAAAAAAAAAAA="}
		epool := []string{"bob" + tok + "@Example.com", "bob" + tok + "@EXAMPLE.COM", "bob" + tok + "@example.com", "Bob" + tok + "@example.com", "bob" + tok + "@example.org", "bob" + tok + "@exampl.ecom", "redacted@redacted.com"}
		items := CoreCorpus(gg, perFile)
		for i := range items {
			t2 := dupify(lr, items[i].Tree, pool, epool)
			raw := t2.Bytes([]jt.Style{jt.Plain, jt.GoLike, jt.Unicode}[i%3])
			if len(raw) > 60000 {
				continue // keep every line below the reader's limit
			}
			items[i].Tree, items[i].Raw = t2, raw
		}
		f := fsetsPairs[fi%len(fsetsPairs)]
		ki := fi % len(keys)
		dir := s.TempDir("c10")
		defer os.RemoveAll(dir)
		kf := filepath.Join(dir, "k.key")
		os.WriteFile(kf, []byte(keys[ki]), 0o600)
		write := func(name string, its []Item) string {
			var buf bytes.Buffer
			for _, it := range its {
				buf.Write(it.Raw)
				buf.WriteByte('\n')
			}
			p := filepath.Join(dir, name)
			os.WriteFile(p, buf.Bytes(), 0o644)
			return p
		}
		in1 := write("in1.log", items)
		// second file: same lines in another order (equal plaintexts across files)
		perm := lr.Perm(len(items))
		items2 := make([]Item, len(items))
		for i, j := range perm {
			items2[i] = items[j]
		}
		in2 := write("in2.log", items2)
		run := func(in, out string, enc bool) ([][]byte, sut.Result) {
			ff := f
			ff.Enc = enc
			args := append([]string{"redact"}, ff.Args(fi, kf)...)
			args = append(args, in, "-o", filepath.Join(dir, out))
			// separate runs are separate processes of possibly different builds / environments: the version
			// string the tool takes from ANONYMONGO_VERSION differs from run to run, the key file does not
			env := map[string][]string{"e2.log": {"ANONYMONGO_VERSION=2.1.0"}, "e3.log": {"ANONYMONGO_VERSION=v7.0.1-rc1"}, "e4.log": {"ANONYMONGO_VERSION=3.0.0"}}[out]
			// an earlier, LONGER output of another job at the same path (re-running after the log was trimmed)
			if out == "e2.log" || out == "p4.log" {
				n := 40000
				if fi, err := os.Stat(in); err == nil {
					n += int(fi.Size()) / 20 // longer than anything this input can turn into
				}
				os.WriteFile(filepath.Join(dir, out), bytes.Repeat([]byte("{\"stale\":\"line of an earlier run\"}\n"), n), 0o644)
			}
			r := s.CLI(sut.Run{Args: args, Dir: dir, Env: env})
			b, _ := os.ReadFile(filepath.Join(dir, out))
			return splitLines(b), r
		}
		outP, rP := run(in1, "p.log", false)
		outE1, rE1 := run(in1, "e1.log", true)
		outE2, rE2 := run(in1, "e2.log", true) // separate process, same key file
		outE3, rE3 := run(in2, "e3.log", true) // other file
		for _, r := range []sut.Result{rP, rE1, rE2, rE3} {
			if r.TimedOut {
				c.Inconclusive("watchdog")
				return
			}
			if r.Exit != 0 {
				c.Violation("run-failed", fmt.Sprintf("redact exited %d under flags %s: %s", r.Exit, f, short(r.Stderr, 300)), nil)
				return
			}
		}
		if len(outP) != len(items) || len(outE1) != len(items) || len(outE2) != len(items) || len(outE3) != len(items) {
			c.Violation("line-count-differs-between-modes", fmt.Sprintf("%d input lines: placeholder mode %d lines, encrypt mode %d / %d / %d lines (flags %s)", len(items), len(outP), len(outE1), len(outE2), len(outE3), f), map[string]any{"input_file_lines": len(items)})
			return
		}
		c.Count("files", 1)
		// run-to-run determinism across two processes, byte level
		for i := range outE1 {
			if !bytes.Equal(outE1[i], outE2[i]) {
				c.Violation("nondeterministic-across-processes|"+items[i].Label(), fmt.Sprintf("two separate --encrypt runs with one key file differ on line %d (flags %s)", i, f),
					map[string]any{"kind": "redact-line", "flags": Flags{Enc: true}.Args(0, "KEYFILE"), "input": string(items[i].Raw), "output": string(outE1[i]), "output_run2": string(outE2[i])})
				break
			}
		}
		bm := bms[ki]
		judgeLine := func(it Item, pl, el []byte, file string) {
			tp, errP := jt.ParseObject(pl)
			te, errE := jt.ParseObject(el)
			if errP != nil || errE != nil {
				c.Violation("bad-json|"+it.Label(), fmt.Sprintf("output is not one JSON object (placeholder: %v, encrypt: %v)", errP, errE), map[string]any{"kind": "redact-line", "flags": Flags{Enc: true}.Args(0, "KEYFILE"), "input": string(it.Raw)})
				return
			}
			h := NewHaystack(el, te)
			rp := func(extra map[string]any) map[string]any {
				m := map[string]any{"kind": "redact-line", "flags": func() []string { ff := f; ff.Enc = true; return ff.Args(0, "KEYFILE") }(), "input": string(it.Raw), "output": string(el), "placeholder_output": string(pl)}
				for k, v := range extra {
					m[k] = v
				}
				return m
			}
			nrep := 0
			walk3(nil, it.Tree, tp, te, func(path []string, in, p, e *jt.Node, mism string) {
				if mism != "" {
					if p != nil && e != nil && (p.K != e.K || mism == "keys" || mism == "length") && (in == nil || in.K == p.K || in.K == e.K) {
						c.Violation("shape-differs-between-modes|"+opSig(path), fmt.Sprintf("placeholder-mode and encrypt-mode outputs differ in shape at %s (%s; flags %s)", jt.PathStr(path), mism, f), rp(nil))
					}
					return
				}
				switch p.K {
				case jt.Num:
					c.Count("non_string_leaves_compared", 1)
					if p.S != e.S {
						c.Violation("number-differs-between-modes|"+opSig(path), fmt.Sprintf("number at %s is %s in placeholder mode and %s in encrypt mode (flags %s)", jt.PathStr(path), p.S, e.S, f), rp(nil))
					}
				case jt.Bool:
					c.Count("non_string_leaves_compared", 1)
					if p.B != e.B {
						c.Violation("boolean-differs-between-modes|"+opSig(path), fmt.Sprintf("boolean at %s differs between the modes (flags %s)", jt.PathStr(path), f), rp(nil))
					}
				case jt.Str:
					c.Count("string_leaves_compared", 1)
					isPlaceholderText := in.S == f.Replacement() || in.S == "redacted@redacted.com" || in.S == "1970-01-01T00:00:00.000Z" || in.S == "000000000000000000000000" || in.S == "AAAAAAAAAAAAAAAAAAA="
					sensLeaf := in.T != nil && in.T.Role == jt.Sens
					if p.S == in.S && isPlaceholderText && !sensLeaf {
						c.Count("ambiguous_leaves_equal_to_a_placeholder", 1)
						return
					}
					if p.S == in.S && isPlaceholderText && sensLeaf {
						// a sensitive literal whose text happens to be the placeholder of its position:
						// placeholder mode "replaces" it by itself; encrypt mode must encrypt it like any
						// other value (never emit it in clear, decrypts back to it)
						c.Count("sensitive_leaves_equal_to_their_placeholder", 1)
					} else if p.S == in.S {
						// not replaced by placeholder mode => must be untouched in encrypt mode
						if e.S != in.S {
							c.Violation("extra-encryption|"+opSig(path), fmt.Sprintf("string at %s is kept by placeholder mode but changed by encrypt mode: %q -> %q (flags %s)", jt.PathStr(path), trunc(in.S, 50), trunc(e.S, 50), f), rp(nil))
						}
						return
					}
					// replaced in placeholder mode (attr.ns / remote / namespaces are hashes or constants in both modes)
					if in.T != nil && (in.T.Role == jt.NsDB || in.T.Role == jt.NsColl || in.T.Role == jt.NsFull || in.T.Role == jt.Remote) {
						// pseudonyms / the IP constant are the same in both modes; where the tool
						// treats the string as an ordinary literal it is encrypted like one
						if e.S == p.S {
							return
						}
					} else if in.T == nil || in.T.Role != jt.Sens {
						return // REF / FREE strings: no claim here
					}
					nrep++
					if e.S == p.S {
						c.Violation("not-encrypted|"+opSig(path), fmt.Sprintf("sensitive string at %s is replaced by %q in BOTH modes: encrypt mode did not encrypt it (flags %s)", jt.PathStr(path), trunc(p.S, 40), f), rp(nil))
						return
					}
					bm.mu.Lock()
					if ct, ok := bm.pt2ct[in.S]; ok && ct != e.S {
						c.Violation("not-deterministic|"+clsOf(in), fmt.Sprintf("plaintext %q has two ciphertexts with one key: %q and %q (second at %s in %s)", trunc(in.S, 50), trunc(ct, 50), trunc(e.S, 50), jt.PathStr(path), file), rp(nil))
					}
					if pt, ok := bm.ct2pt[e.S]; ok && pt != in.S {
						c.Violation("not-injective|"+clsOf(in), fmt.Sprintf("plaintexts %q and %q share the ciphertext %q", trunc(pt, 50), trunc(in.S, 50), trunc(e.S, 50)), rp(nil))
					}
					_, seen := bm.pt2ct[in.S]
					bm.pt2ct[in.S] = e.S
					bm.ct2pt[e.S] = in.S
					bm.mu.Unlock()
					if !seen {
						pmu.Lock()
						pend = append(pend, pendingDec{ki, e.S, in.S, jt.PathStr(path), it.Raw})
						pmu.Unlock()
					} else {
						c.Count("repeated_plaintexts_seen", 1)
					}
					if in.T.Role == jt.Sens && len(in.S) >= 8 && !isPlaceholderText && h.HasString(in.S) {
						c.Violation("leak-in-encrypt-mode|"+opSig(path), fmt.Sprintf("planted %q at %s is visible in the encrypt-mode line", trunc(in.S, 50), jt.PathStr(path)), rp(nil))
					}
				}
			})
			key := ""
			if nrep > 0 {
				key = string(it.Raw) + f.String() + file
			}
			c.Eval(key)
		}
		for i, it := range items {
			judgeLine(it, outP[i], outE1[i], "file1")
		}
		// file 2: the placeholder reference of a permuted line is the placeholder line of the original
		for i, j := range perm {
			judgeLine(items[j], outP[j], outE3[i], "file2")
		}
		// feedback: the encrypt-mode OUTPUT of run 1 is the input of another pair of runs with the same
		// key file. Its literals are now ciphertexts issued earlier — ordinary strings as far as the
		// property goes: placeholder mode replaces them, encrypt mode encrypts them again (the bimap
		// spans both generations: a ciphertext that comes back unchanged shares it with its plaintext)
		var fb []Item
		for i, it := range items {
			if len(outE1[i]) > 40000 {
				continue // twice-encrypted lines must stay below the reader's limit
			}
			t, err := jt.ParseObject(outE1[i])
			if err != nil || !copyTags(it.Tree, t) {
				continue
			}
			fb = append(fb, Item{Case: it.Case, Tree: t, Raw: outE1[i]})
		}
		if len(fb) > 0 {
			in3 := write("in3.log", fb)
			outP4, rP4 := run(in3, "p4.log", false)
			outE4, rE4 := run(in3, "e4.log", true)
			if rP4.TimedOut || rE4.TimedOut {
				c.Inconclusive("watchdog")
				return
			}
			if rP4.Exit != 0 || rE4.Exit != 0 || len(outP4) != len(fb) || len(outE4) != len(fb) {
				c.Violation("feedback-run-failed", fmt.Sprintf("redacting the encrypt-mode output again (%d lines): placeholder mode exit %d, %d lines; encrypt mode exit %d, %d lines (flags %s): %s", len(fb), rP4.Exit, len(outP4), rE4.Exit, len(outE4), f, short(rE4.Stderr, 200)), nil)
				return
			}
			for i, it := range fb {
				judgeLine(it, outP4[i], outE4[i], "feedback")
			}
			c.Count("feedback_lines", len(fb))
		}
		if fi == 0 {
			c.Sample(map[string]any{"flags": f.String(), "input": short(items[0].Raw, 500), "placeholder_mode": short(outP[0], 500), "encrypt_mode": short(outE1[0], 500)})
		}
	})

	// decrypt every distinct ciphertext in-process and compare with the planted value
	for ki := range keys {
		var data []string
		var idx []int
		for i, p := range pend {
			if p.key != ki {
				continue
			}
			raw, err := base64.StdEncoding.DecodeString(p.ct)
			if err != nil {
				c.Violation("ciphertext-not-base64", fmt.Sprintf("encrypt-mode leaf at %s is %q: not standard base64", p.where, trunc(p.ct, 60)), map[string]any{"kind": "redact-line", "flags": Flags{Enc: true}.Args(0, "KEYFILE"), "input": string(p.input)})
			}
			data = append(data, b64(raw))
			idx = append(idx, i)
		}
		if len(data) == 0 {
			continue
		}
		recs, crashed, res, err := s.Agent([]sut.AgentCmd{{"op": "decrypt", "pub": keys[ki], "data": data}}, nil, 0)
		if err != nil || crashed >= 0 || len(recs) != 1 {
			c.Inconclusive("agent decrypt failed: " + short(res.Stderr, 200))
			continue
		}
		outs, _ := recs[0]["outs"].([]any)
		for j, i := range idx {
			m, _ := outs[j].(map[string]any)
			pt, _ := m["out"].(string)
			raw, _ := base64.StdEncoding.DecodeString(pt)
			c.Count("plaintext_ciphertext_pairs_in_bimap", 1)
			if m["err"] != nil || string(raw) != pend[i].plain {
				c.Violation("decrypts-to-other-value", fmt.Sprintf("leaf at %s: planted %q, emitted %q, decrypts to %q (err %v)", pend[i].where, trunc(pend[i].plain, 50), trunc(pend[i].ct, 50), trunc(string(raw), 50), m["err"]),
					map[string]any{"kind": "redact-line", "flags": Flags{Enc: true}.Args(0, "KEYFILE"), "input": string(pend[i].input), "key_b64": keys[ki]})
			}
		}
	}

	// fail closed: unusable key material handed to the redactor through the API
	c10Unusable(s, c, g)
	// one key FILE, two separate runs: whatever state the file is in, runs that succeed agree byte for byte
	c10KeyFileStates(s, c, g)
	optionHistory(s, c, CoreCorpus(gen.New(c.Seed*79+10), 200))

	c.Set("keys", len(keys))
	c.Set("flag_sets", flagNames(fsetsPairs))
	raceVerdict(s, c)
	if c.Counter("plaintext_ciphertext_pairs_in_bimap") < 5000 {
		c.Inconclusive(fmt.Sprintf("only %d plaintext/ciphertext pairs", c.Counter("plaintext_ciphertext_pairs_in_bimap")))
	}
	c.Assume("planted sensitive strings never equal a placeholder constant, so 'placeholder mode replaced it' is observable as out != in")
	return c.Finish("multi-line grammar inputs whose sensitive strings are partly drawn from pools of equal and near-duplicate values (case, trailing/leading space, homoglyph, zero-width, NFC/NFD, empty), each file run in placeholder mode, twice in encrypt mode (two processes) and once more as a permuted second file; leaf-wise three-way comparison input / placeholder output / encrypt output, a plaintext↔ciphertext bimap over all runs per key, in-process decryption of every distinct ciphertext, whole-line leak search; plus unusable key materials injected through SetEncryptionKey")
}

func c10Unusable(s *sut.SUT, c *ev.Check, g *gen.Gen) {
	items := CoreCorpus(g, 700)
	lines := make([]string, len(items))
	for i, it := range items {
		lines[i] = string(it.Raw)
	}
	type km struct {
		name string
		b64  string
	}
	var kms []km
	kms = append(kms, km{"nil", ""})
	for _, n := range []int{1, 16, 32, 63, 65, 128} {
		kms = append(kms, km{fmt.Sprintf("%d bytes", n), b64(bytes.Repeat([]byte{0x41}, n))})
	}
	var cmds []sut.AgentCmd
	for _, k := range kms {
		cmds = append(cmds, sut.AgentCmd{"op": "set", "replacement": "REDACTED", "numbers": false, "booleans": false, "ips": false, "namespaces": false, "eager": []string{}, "regexp": "", "encrypt": true, "key_b64": k.b64},
			sut.AgentCmd{"op": "redact", "lines": lines})
	}
	// afterwards, in the SAME process, a usable key: the earlier failures must leave no trace —
	// the output must be what a fresh process with that key gives (deterministic across processes)
	valid := []sut.AgentCmd{{"op": "set", "replacement": "REDACTED", "numbers": false, "booleans": false, "ips": false, "namespaces": false, "eager": []string{}, "regexp": "", "encrypt": true, "key_b64": TestKeyB64},
		{"op": "redact", "lines": lines}}
	cmds = append(cmds, valid...)
	recs, crashed, res, err := s.Agent(cmds, nil, 0)
	if err != nil || crashed >= 0 {
		c.Inconclusive("agent (unusable keys) failed: " + short(res.Stderr, 300))
		return
	}
	if fresh, crashed2, res2, err2 := s.Agent(valid, nil, 0); err2 != nil || crashed2 >= 0 {
		c.Inconclusive("agent (fresh process, valid key) failed: " + short(res2.Stderr, 300))
	} else {
		a, _ := recs[len(recs)-1]["outs"].([]any)
		b, _ := fresh[1]["outs"].([]any)
		for i := range lines {
			if i >= len(a) || i >= len(b) {
				break
			}
			ma, _ := a[i].(map[string]any)
			mb, _ := b[i].(map[string]any)
			c.Count("lines_compared_after_unusable_key_history", 1)
			if fmt.Sprint(ma["out"]) != fmt.Sprint(mb["out"]) {
				c.Violation("key-history-dependent", fmt.Sprintf("encrypt-mode output with a valid key differs between a fresh process and a process that was handed unusable key material before: %s vs %s", trunc(fmt.Sprint(mb["out"]), 200), trunc(fmt.Sprint(ma["out"]), 200)),
					map[string]any{"input": lines[i], "fresh_process": mb["out"], "after_unusable_keys": ma["out"]})
				break
			}
		}
	}
	for ki, k := range kms {
		outs, _ := recs[2*ki+1]["outs"].([]any)
		for i, o := range outs {
			m, _ := o.(map[string]any)
			if p, ok := m["panic"]; ok {
				c.Violation("panic-with-unusable-key|"+k.name, fmt.Sprintf("RedactMongoLog panicked with key material '%s': %v", k.name, p), map[string]any{"input": lines[i]})
				continue
			}
			out, _ := m["out"].(string)
			if out == "" {
				c.Count("unusable_key_lines_rejected", 1)
				continue
			}
			t, perr := jt.ParseObject([]byte(out))
			if perr != nil {
				continue
			}
			h := NewHaystack([]byte(out), t)
			n := 0
			items[i].Tree.Walk(nil, func(path []string, nd *jt.Node) {
				if nd.T == nil || nd.T.Role != jt.Sens || nd.K != jt.Str || nd.S == "" {
					return
				}
				n++
				if h.HasString(nd.S) {
					c.Violation("plaintext-with-unusable-key|"+opSig(path), fmt.Sprintf("with --encrypt on and key material '%s' the planted %q at %s is emitted in clear", k.name, trunc(nd.S, 50), jt.PathStr(path)),
						map[string]any{"input": lines[i], "output": out, "key_material": k.name})
				}
			})
			c.Count("unusable_key_leaves_searched", n)
			c.Eval("unusable|" + k.name + "|" + lines[i])
		}
	}
	c.Set("unusable_key_materials", len(kms))
}

func clsOf(n *jt.Node) string {
	if n.T == nil {
		return "untagged"
	}
	if n.T.Class != "" {
		return n.T.Class
	}
	return n.T.Role.String()
}

// c10KeyFileStates: "with one key file, equal plaintexts give equal ciphertexts across separate
// runs" — also when the file at the key path is blank, padded or freshly created by the first of the
// two runs. A state the tool refuses (non-zero exit, no output) is C11's subject and only counted.
func c10KeyFileStates(s *sut.SUT, c *ev.Check, g *gen.Gen) {
	items := CoreCorpus(g, 60)
	var buf bytes.Buffer
	for _, it := range items[:60] {
		buf.Write(it.Raw)
		buf.WriteByte('\n')
	}
	states := map[string]*string{"absent": nil, "valid": sp(TestKeyB64), "valid+LF": sp(TestKeyB64 + "\n"), "empty": sp(""), "blank": sp(" \n"), "tab": sp("\t"), "LF-only": sp("\n")}
	names := sortedKeys(states)
	parallelDo(len(names), func(i int) {
		st := names[i]
		dir := s.TempDir("c10k")
		defer os.RemoveAll(dir)
		kp := filepath.Join(dir, "k.key")
		if states[st] != nil {
			os.WriteFile(kp, []byte(*states[st]), 0o600)
		}
		in := filepath.Join(dir, "in.log")
		os.WriteFile(in, buf.Bytes(), 0o644)
		var outs [][]byte
		var exits []int
		for r := 0; r < 3; r++ {
			outp := filepath.Join(dir, fmt.Sprintf("out%d.log", r))
			res := s.CLI(sut.Run{Args: []string{"redact", "--encrypt", "-q", kp, "-o", outp, in}, Dir: dir})
			if res.TimedOut {
				c.Inconclusive("watchdog")
				return
			}
			b, _ := os.ReadFile(outp)
			outs, exits = append(outs, b), append(exits, res.Exit)
		}
		c.Count("key_file_state_runs", 3)
		c.Eval("keyfile-state|" + st)
		for r := 1; r < 3; r++ {
			if exits[r] == 0 && exits[0] == 0 && !bytes.Equal(outs[r], outs[0]) {
				c.Violation("runs-with-one-key-file-differ|"+st, fmt.Sprintf("key file state %q: runs 1 and %d over the same input with the same key path both succeed but their outputs differ (equal plaintexts, different ciphertexts)", st, r+1),
					map[string]any{"key_file_state": st, "exits": exits})
				return
			}
		}
		if exits[0] != 0 {
			c.Count("key_file_states_refused", 1)
		}
	})
}

// copyTags transfers the generator's tags from a tree onto another tree of the same shape
// (same kinds, keys in the same order, same array lengths); false when the shapes differ.
func copyTags(src, dst *jt.Node) bool {
	if src == nil || dst == nil || src.K != dst.K {
		return false
	}
	dst.T = src.T
	switch src.K {
	case jt.Obj:
		if len(src.Keys) != len(dst.Keys) {
			return false
		}
		for i := range src.Keys {
			if src.Keys[i] != dst.Keys[i] || !copyTags(src.Vals[i], dst.Vals[i]) {
				return false
			}
		}
	case jt.Arr:
		if len(src.Vals) != len(dst.Vals) {
			return false
		}
		for i := range src.Vals {
			if !copyTags(src.Vals[i], dst.Vals[i]) {
				return false
			}
		}
	}
	return true
}
