package checks

import (
	"bytes"
	"encoding/base64"
	"fmt"
	"math/rand"
	"os"
	"os/exec"
	"path/filepath"
	"strings"
	"time"
	"verif/atlasfake"

	"verif/ev"
	"verif/gen"
	"verif/jt"
	"verif/sut"
)

// C08: I/O failures are reported, never turned into silent truncation.
//
// Fault enumeration. Library level: ProcessMongoLogFile[FromReader] through
// the agent with a reader failing at the k-th call / byte offset, a writer
// failing (or short) at the k-th call, gzip streams cut at every offset and
// with every byte flipped; the write-call log is recorded and judged offline.
// CLI level: RLIMIT_FSIZE grid, /dev/full, a stdout pipe whose reader goes
// away, damaged .gz files on disk, (thorough) strace ENOSPC/EIO injection.

type c08Input struct {
	data     []byte
	F        []byte // fault-free output
	name     string
	overLong bool // holds a line beyond the reader's limit: the fault-free run may stop there with an error
	refErr   bool // the fault-free run returned an error
}

func c08Inputs(g *gen.Gen, rng *rand.Rand, n int) []c08Input {
	var ins []c08Input
	sizes := []int{1, 2, 3, 5, 8, 13, 21, 34, 60}
	for i := 0; i < n; i++ {
		nl := sizes[i%len(sizes)]
		var buf bytes.Buffer
		for j := 0; j < nl; j++ {
			switch rng.Intn(10) {
			case 0:
				buf.WriteString("not json at all\n")
			case 1:
				buf.WriteString("\n")
			case 2:
				buf.Write(g.OtherLine().Bytes(jt.Plain))
				buf.WriteByte('\n')
			case 3:
				// a complete object followed by more text on the same line: the fault-free run drops
				// the line; a read fault or gzip cut that lands right behind the object must not turn
				// its first part into an output line
				buf.Write(g.Case(gen.CaseOpts{}).Line.Bytes(jt.Plain))
				buf.WriteString([]string{" trailing", `{"b":2}`, "}", " ]", " 17", ` {"t":{"$date":"2024-01-01T00:00:00.000+00:00"},"c":"COMMAND","msg":"x"}`}[rng.Intn(6)])
				buf.WriteByte('\n')
			default:
				buf.Write(g.Case(gen.CaseOpts{}).Line.Bytes(jt.Plain))
				buf.WriteByte('\n')
			}
		}
		d := buf.Bytes()
		if i%4 == 3 {
			d = bytes.TrimRight(d, "\n") // no final newline
		}
		ins = append(ins, c08Input{data: d, name: fmt.Sprintf("in%d(%d lines)", i, nl)})
	}
	return ins
}

func dec64(v any) []byte {
	s, _ := v.(string)
	b, _ := base64.StdEncoding.DecodeString(s)
	return b
}

func lineBoundary(b []byte) bool { return len(b) == 0 || b[len(b)-1] == '\n' }

func C08() int {
	s, c, g, ok := setup("C08", "fault_enumeration")
	if !ok {
		return c.Finish("build failed")
	}
	defer s.Close()
	rng := rand.New(rand.NewSource(c.Seed*8009 + 8))
	g.LongMax = 120
	g.MaxDepth = 2
	ins := c08Inputs(g, rng, pickN(c, 27, 90))
	// two big inputs: output well beyond 64 KiB (a buffered writer would tear lines)
	for k := 0; k < 2; k++ {
		var buf bytes.Buffer
		for j := 0; j < 260+140*k; j++ {
			buf.Write(g.Case(gen.CaseOpts{}).Line.Bytes(jt.Plain))
			buf.WriteByte('\n')
		}
		ins = append(ins, c08Input{data: buf.Bytes(), name: fmt.Sprintf("big%d", k)})
	}
	// an over-long line (beyond the reader's limit) in the middle: the fault-free run itself must
	// fail there (C07's explicit stop); faults that land inside the discarded remainder of that
	// line must not turn the failure into a clean end of input
	{
		var buf bytes.Buffer
		for j := 0; j < 3; j++ {
			buf.Write(g.Case(gen.CaseOpts{}).Line.Bytes(jt.Plain))
			buf.WriteByte('\n')
		}
		buf.WriteString(`{"c":"COMMAND","msg":"Slow query","attr":{"command":{"find":"c","filter":{"blob":"` + strings.Repeat("L", 200000) + `"}}}}` + "\n")
		for j := 0; j < 3; j++ {
			buf.Write(g.Case(gen.CaseOpts{}).Line.Bytes(jt.Plain))
			buf.WriteByte('\n')
		}
		ins = append(ins, c08Input{data: buf.Bytes(), name: "over-long-line-in-the-middle", overLong: true})
	}
	// fault-free references
	var ref []sut.AgentCmd
	for _, in := range ins {
		ref = append(ref, sut.AgentCmd{"op": "stream", "input_b64": b64(in.data)})
	}
	recs, crashed, res, err := s.Agent(ref, nil, 0)
	if err != nil || crashed >= 0 {
		c.Inconclusive("agent (references) failed: " + short(res.Stderr, 300))
		return c.Finish("agent failed")
	}
	nwrites := make([]int, len(ins))
	for i := range ins {
		ins[i].F = dec64(recs[i]["accepted"])
		w, _ := recs[i]["writes"].([]any)
		nwrites[i] = len(w)
		if recs[i]["err"] != nil {
			ins[i].refErr = true
			if !ins[i].overLong {
				c.Violation("fault-free-error", fmt.Sprintf("fault-free processing of %s returned an error: %v", ins[i].name, recs[i]["err"]), nil)
			}
		}
		for wi, wv := range w {
			if p := dec64(wv); !lineBoundary(p) {
				c.Count("fault_free_writes_not_ending_in_newline", 1)
				_ = wi
			}
		}
	}
	c.Set("inputs", len(ins))

	type fault struct {
		in      int
		cmd     sut.AgentCmd
		kind    string // write read gzcut gzflip
		what    string
		short   bool
		nofault bool // the injection point lies beyond the run: must succeed with F
		readK   int  // k of "k-th Read fails" (0: n/a)
	}
	var faults []fault
	// ---- writer: every k, plain failure and short writes
	for i, in := range ins {
		kmax := nwrites[i] + 1
		step := 1
		if nwrites[i] > 80 && !thorough(c) {
			step = nwrites[i] / 60
		}
		for k := 1; k <= kmax; k += step {
			for _, sh := range []int{0, 1, 7, 1 << 20} {
				if sh != 0 && (k+sh)%3 != 0 && !thorough(c) {
					continue
				}
				faults = append(faults, fault{i, sut.AgentCmd{"op": "stream", "input_b64": b64(in.data), "fail_write_at": k, "short_write": sh}, "write", fmt.Sprintf("write #%d fails after accepting ≤%d bytes", k, sh), sh != 0, k > nwrites[i], 0})
			}
		}
	}
	// ---- writer: a real errno (EAGAIN on a non-blocking pipe, EINTR, ENOSPC, EPIPE, EIO), outright or after a part of
	// the block was taken, as a lasting and as a transient condition (the next Write call would succeed)
	for i, in := range ins {
		if nwrites[i] == 0 {
			continue
		}
		ks := []int{1, 2, (nwrites[i] + 1) / 2, nwrites[i]}
		for ei, errno := range []string{"EAGAIN", "EINTR", "ENOSPC", "EPIPE", "EIO"} {
			for ki, k := range ks {
				if k < 1 || k > nwrites[i] || (ki > 0 && k == ks[ki-1]) {
					continue
				}
				for si, sh := range []int{0, 1, 3000} {
					once := (ei+ki+si)%2 == 0
					faults = append(faults, fault{i, sut.AgentCmd{"op": "stream", "input_b64": b64(in.data), "fail_write_at": k, "short_write": sh, "write_errno": errno, "write_once": once}, "write",
						fmt.Sprintf("write #%d fails with %s after accepting ≤%d bytes (transient: %v)", k, errno, sh, once), sh != 0, false, 0})
				}
			}
		}
	}
	// ---- writer: the output is a regular file (the program can seek in it and cut it back): what the FILE holds
	// after the failure is judged like the accepted bytes - a prefix, whole lines after an outright failure
	for i, in := range ins {
		if nwrites[i] < 2 || i > 8 {
			continue
		}
		for _, k := range []int{2, (nwrites[i] + 2) / 2, nwrites[i]} {
			for _, sh := range []int{0, 1, 40} {
				faults = append(faults, fault{i, sut.AgentCmd{"op": "stream", "input_b64": b64(in.data), "fail_write_at": k, "short_write": sh, "file_sink": true}, "write",
					fmt.Sprintf("write #%d to a regular file fails after accepting ≤%d bytes", k, sh), sh != 0, false, 0})
			}
		}
	}
	// ---- reader: k-th Read fails under chunkings; every byte offset on small inputs
	for i, in := range ins {
		if len(in.data) > 40000 && !in.overLong {
			continue
		}
		for _, ch := range []int{4096, 37 + i, 1} {
			nreads := len(in.data)/ch + 2
			if ch == 1 && len(in.data) > 2500 {
				continue
			}
			for k := 1; k <= nreads; k++ {
				faults = append(faults, fault{i, sut.AgentCmd{"op": "stream", "input_b64": b64(in.data), "chunk": ch, "fail_read_at": k}, "read", fmt.Sprintf("read #%d fails (chunk %d)", k, ch), false, false, k})
			}
		}
		// a source that fails ONCE and then reports end of input, or carries on (a buffered layer in
		// front of the reader hands an error over exactly once): the failure must still be reported
		for _, ch := range []int{4096, 37 + i, 2, 1} {
			nreads := len(in.data)/ch + 2
			if ch <= 2 && len(in.data) > 2500 {
				continue
			}
			for k := 1; k <= nreads; k++ {
				if k > 12 && k%(nreads/8+1) != 0 {
					continue
				}
				for _, mode := range []string{"once-eof", "once-continue"} {
					faults = append(faults, fault{i, sut.AgentCmd{"op": "stream", "input_b64": b64(in.data), "chunk": ch, "fail_read_at": k, "fail_mode": mode}, "read", fmt.Sprintf("read #%d fails once, then %s (chunk %d)", k, mode, ch), false, false, k})
				}
			}
		}
		if len(in.data) <= 6000 {
			for off := 1; off <= len(in.data); off++ {
				faults = append(faults, fault{i, sut.AgentCmd{"op": "stream", "input_b64": b64(in.data), "fail_read_off": off}, "read", fmt.Sprintf("read fails after %d bytes", off), false, false, 0})
			}
		}
	}
	// ---- gzip: single- and multi-member streams cut at every offset / every byte flipped
	ngz := pickN(c, 4, 10)
	masks := []byte{0xff}
	if thorough(c) {
		masks = []byte{0xff, 0x01, 0x80}
	}
	olIdx := -1
	for i := range ins {
		if ins[i].overLong {
			olIdx = i
		}
	}
	for i := 0; i <= ngz && i < len(ins); i++ {
		idx := (i*2 + 1) % 9
		if i == ngz {
			if olIdx < 0 {
				break
			}
			idx = olIdx // the input with the over-long line, gzip-compressed
		}
		in := ins[idx]
		var z []byte
		bounds := map[int]bool{} // offsets at which a cut leaves a complete, shorter gzip stream
		switch i % 3 {
		case 0:
			z = gz(in.data)
		case 1:
			h := len(in.data) / 2
			for h < len(in.data) && in.data[h] != '\n' {
				h++
			}
			if h < len(in.data) {
				h++
			}
			z = gz(in.data[:h], in.data[h:])
			bounds[len(gz(in.data[:h]))] = true
		case 2:
			a, b := len(in.data)/3, 2*len(in.data)/3
			z = gz(in.data[:a], in.data[a:b], in.data[b:])
			bounds[len(gz(in.data[:a]))] = true
			bounds[len(gz(in.data[:a], in.data[a:b]))] = true
		}
		for off := 0; off < len(z); off++ {
			kind := "gzcut"
			if bounds[off] {
				// cut exactly between two members: a well-formed shorter stream, not a detectable fault
				kind = "gzcut-at-member-boundary"
			}
			faults = append(faults, fault{idx, sut.AgentCmd{"op": "stream", "gzip": true, "input_b64": b64(z[:off])}, kind, fmt.Sprintf("gzip stream (%d members, %d bytes) cut at offset %d", i%3+1, len(z), off), false, false, 0})
		}
		for _, m := range masks {
			for off := 0; off < len(z); off++ {
				d := append([]byte{}, z...)
				d[off] ^= m
				faults = append(faults, fault{idx, sut.AgentCmd{"op": "stream", "gzip": true, "input_b64": b64(d)}, "gzflip", fmt.Sprintf("gzip stream (%d members) byte %d xor %#02x", i%3+1, off, m), false, false, 0})
			}
		}
		// also: reader fails mid-way under gzip
		for k := 1; k <= len(z)/512+2; k++ {
			faults = append(faults, fault{idx, sut.AgentCmd{"op": "stream", "gzip": true, "input_b64": b64(z), "chunk": 512, "fail_read_at": k}, "read", fmt.Sprintf("read #%d of the gzip file fails", k), false, false, k})
		}
	}
	c.Set("library_fault_points", len(faults))
	// run in chunks over agent processes
	const per = 600
	nch := (len(faults) + per - 1) / per
	parallelDo(nch, func(ci int) {
		lo, hi := ci*per, (ci+1)*per
		if hi > len(faults) {
			hi = len(faults)
		}
		cmds := make([]sut.AgentCmd, hi-lo)
		for i := range cmds {
			cmds[i] = faults[lo+i].cmd
		}
		recs, crashed, res, err := s.Agent(cmds, nil, 0)
		if err != nil || crashed >= 0 || len(recs) != len(cmds) {
			c.Inconclusive("agent (faults) failed: " + short(res.Stderr, 300))
			return
		}
		for i, rec := range recs {
			nf := faults[lo+i].nofault
			if rk := faults[lo+i].readK; rk > 0 {
				if rc, ok := rec["read_calls"].(interface{ Int64() (int64, error) }); ok {
					if n, _ := rc.Int64(); int(n) < rk {
						nf = true // the run finished before the k-th Read: no fault was injected
					}
				}
			}
			c08JudgeLib(c, ins, faults[lo+i].in, faults[lo+i].kind, faults[lo+i].what, faults[lo+i].short, nf, rec)
		}
	})

	// ---- CLI level
	c08CLI(s, c, g, rng)

	// ---- Atlas mode: the same promise for each downloaded log (a failure on any host's file is a failure of the run)
	c08Atlas(s, c)

	raceVerdict(s, c)
	c.Set("sut_statement_coverage_percent", s.CoverFuncs())
	for _, k := range []string{"write", "read", "gzcut", "gzflip"} {
		if c.Counter("fault_points_"+k) < 300 {
			c.Inconclusive(fmt.Sprintf("only %d %s fault points", c.Counter("fault_points_"+k), k))
		}
	}
	if c.Counter("rlimit_points") < 40 {
		c.Inconclusive("fewer than 40 RLIMIT_FSIZE points")
	}
	c.Assume("for byte flips inside a gzip stream only 'no success on damaged data' and 'stop at a line boundary' are demanded: a streaming decompressor cannot know earlier")
	c.Assume("after a short write the sink may hold a partial last line (the OS took it); the prefix is judged at byte level; death by SIGPIPE counts as a reported failure")
	return c.Finish("fault enumeration: inputs of 1–60 lines (plus two >64 KiB outputs) × {every k-th Write fails outright or short}, {every k-th Read fails under 3 chunkings, every byte offset on small inputs}, {single/2/3-member gzip streams cut at EVERY byte offset and with EVERY byte flipped}, recorded write-call logs judged offline (accepted bytes are a prefix of the fault-free output; incomplete ⇒ error; no write after a failed one; outright failures leave whole lines); CLI: RLIMIT_FSIZE grid for -o and redirected stdout, /dev/full, stdout pipe closed by the reader, damaged .gz on disk")
}

func c08JudgeLib(c *ev.Check, ins []c08Input, ii int, kind, what string, short, nofault bool, rec sut.AgentRec) {
	in := ins[ii]
	F := in.F
	acc := dec64(rec["accepted"])
	errS, failed := rec["err"].(string)
	c.Count("fault_points_"+kind, 1)
	c.Eval(kind + "|" + in.name + "|" + what)
	rp := map[string]any{"kind": "fault", "fault": what, "input": string(in.data), "accepted_bytes": len(acc), "fault_free_bytes": len(F), "returned_error": errS}
	if failed && len(acc) > 0 && len(acc) < len(F) {
		c.Sample(map[string]any{"fault": what, "input": in.name, "returned_error": errS, "accepted_bytes": len(acc), "fault_free_bytes": len(F), "accepted_is_prefix": bytes.HasPrefix(F, acc), "write_calls": rec["writes"] != nil})
	}
	if p, ok := rec["panic"]; ok {
		c.Violation("panic|"+kind, fmt.Sprintf("%s: processor panicked: %v", what, p), rp)
		return
	}
	if after, _ := rec["writes_after_failure"].(interface{ Int64() (int64, error) }); after != nil {
		if n, _ := after.Int64(); n > 0 {
			c.Violation("write-after-failed-write|"+kind, fmt.Sprintf("%s on %s: %d more Write calls were issued after the failed one", what, in.name, n), rp)
		}
	}
	switch kind {
	case "gzflip":
		if !failed && !bytes.Equal(acc, F) {
			c.Violation("silent-corruption|gzflip", fmt.Sprintf("%s on %s: success reported, but the output (%d bytes) is not the fault-free output (%d bytes)", what, in.name, len(acc), len(F)), rp)
		}
		if failed && !lineBoundary(acc) {
			c.Violation("torn-line|gzflip", fmt.Sprintf("%s on %s: failure reported but the accepted output ends inside a line", what, in.name), rp)
		}
		if failed {
			c.Count("gzflip_detected", 1)
		} else {
			c.Count("gzflip_harmless", 1)
		}
		return
	}
	if !bytes.HasPrefix(F, acc) {
		c.Violation("not-a-prefix|"+kind, fmt.Sprintf("%s on %s: the %d accepted bytes are not a prefix of the fault-free output", what, in.name, len(acc)), rp)
		return
	}
	if in.refErr {
		// the fault-free run already stops with an error (over-long line): with a fault on top it must
		// still report failure, and what it accepted must still be a whole-line prefix
		if !failed {
			c.Violation("failure-turned-into-success|"+kind, fmt.Sprintf("%s on %s: the fault-free run fails (over-long line) but this run returned nil with %d of %d bytes", what, in.name, len(acc), len(F)), rp)
		}
		return
	}
	if nofault {
		if failed || !bytes.Equal(acc, F) {
			c.Violation("spurious-failure|"+kind, fmt.Sprintf("%s on %s (beyond the end of the run): err=%q, %d of %d bytes", what, in.name, errS, len(acc), len(F)), rp)
		}
		return
	}
	if kind == "gzcut-at-member-boundary" {
		if !lineBoundary(acc) {
			c.Violation("torn-line|"+kind, fmt.Sprintf("%s on %s: accepted output ends inside a line", what, in.name), rp)
		}
		return
	}
	if !bytes.Equal(acc, F) && !failed {
		c.Violation("silent-truncation|"+kind, fmt.Sprintf("%s on %s: nil error although only %d of %d output bytes were accepted", what, in.name, len(acc), len(F)), rp)
		return
	}
	if kind == "read" && !failed {
		c.Violation("read-error-swallowed", fmt.Sprintf("%s on %s: the reader returned an error but the processor returned nil", what, in.name), rp)
	}
	if kind == "gzcut" && !failed {
		c.Violation("truncated-gzip-accepted", fmt.Sprintf("%s on %s: success reported for a truncated gzip stream", what, in.name), rp)
	}
	if !short && !lineBoundary(acc) {
		c.Violation("torn-line|"+kind, fmt.Sprintf("%s on %s: the accepted output (%d bytes) ends inside a line although no write was short", what, in.name, len(acc)), rp)
	}
}

func c08CLI(s *sut.SUT, c *ev.Check, g *gen.Gen, rng *rand.Rand) {
	// a ~110 KiB output for the pipe / rlimit grid, and a small one
	mk := func(n int) []byte {
		var buf bytes.Buffer
		for j := 0; j < n; j++ {
			buf.Write(g.Case(gen.CaseOpts{}).Line.Bytes(jt.Plain))
			buf.WriteByte('\n')
		}
		return buf.Bytes()
	}
	type inp struct {
		data, F []byte
		name    string
	}
	inps := []inp{{data: mk(30), name: "30 lines"}, {data: mk(420), name: "420 lines"}}
	dir := s.TempDir("c08cli")
	defer os.RemoveAll(dir)
	paths := make([]string, len(inps))
	for i := range inps {
		paths[i] = filepath.Join(dir, fmt.Sprintf("in%d.log", i))
		os.WriteFile(paths[i], inps[i].data, 0o644)
		r := s.CLI(sut.Run{Args: []string{"redact", paths[i]}, Dir: dir})
		inps[i].F = r.Stdout
		if r.Exit != 0 || len(r.Stdout) == 0 {
			c.Inconclusive("fault-free CLI reference failed")
			return
		}
	}
	hasPrlimit := exec.Command("prlimit", "--version").Run() == nil
	c.Set("prlimit_available", hasPrlimit)
	type job struct {
		in   int
		kind string
		k    int
	}
	var jobs []job
	if hasPrlimit {
		for i, in := range inps {
			F := in.F
			grid := []int{1, 2, 100, len(F) - 1, len(F), len(F) + 1, 4096, 4095, 65536, 65535, 65537}
			// line boundaries ±1
			pos := 0
			for n := 0; n < 8 && pos < len(F); n++ {
				j := bytes.IndexByte(F[pos:], '\n')
				if j < 0 {
					break
				}
				pos += j + 1
				grid = append(grid, pos-1, pos, pos+1)
				pos += rng.Intn(len(F)/8 + 1)
			}
			np := 12
			if thorough(c) {
				np = len(F) / 64
			}
			for n := 0; n < np; n++ {
				grid = append(grid, 1+rng.Intn(len(F)))
			}
			for _, k := range grid {
				if k >= 1 {
					jobs = append(jobs, job{i, "rlimit-ofile", k}, job{i, "rlimit-stdout", k})
				}
			}
		}
	}
	for i := range inps {
		jobs = append(jobs, job{i, "devfull-ofile", 0}, job{i, "devfull-stdout", 0}, job{i, "pipe", 0})
	}
	for _, j := range []int{1, 1000, 30000} {
		jobs = append(jobs, job{1, "pipe", j})
	}
	// damaged .gz on disk (cut and flipped), through the real file reader
	z := gz(inps[0].data[:len(inps[0].data)/2], inps[0].data[len(inps[0].data)/2:])
	for n := 0; n < 60; n++ {
		jobs = append(jobs, job{0, "gzcut-file", rng.Intn(len(z))}, job{0, "gzflip-file", rng.Intn(len(z))})
	}
	for off := len(z) - 12; off < len(z); off++ {
		jobs = append(jobs, job{0, "gzcut-file", off}, job{0, "gzflip-file", off})
	}
	parallelDo(len(jobs), func(ji int) {
		jb := jobs[ji]
		in := inps[jb.in]
		F := in.F
		d := s.TempDir("c08j")
		defer os.RemoveAll(d)
		outp := filepath.Join(d, "out.log")
		run := sut.Run{Dir: d, Env: []string{"GOCOVERDIR="}}
		var got []byte
		readOut := func() {}
		switch jb.kind {
		case "rlimit-ofile":
			run.Args, run.Rlimit = []string{"redact", paths[jb.in], "-o", outp}, int64(jb.k)
			readOut = func() { got, _ = os.ReadFile(outp) }
		case "rlimit-stdout":
			run.Args, run.Rlimit, run.StdoutFile = []string{"redact", paths[jb.in]}, int64(jb.k), outp
			readOut = func() { got, _ = os.ReadFile(outp) }
		case "devfull-ofile":
			run.Args = []string{"redact", paths[jb.in], "-o", "/dev/full"}
		case "devfull-stdout":
			run.Args, run.StdoutFile = []string{"redact", paths[jb.in]}, "/dev/full"
		case "pipe":
			run.Args, run.PipeClose, run.StdoutPipeClose = []string{"redact", paths[jb.in]}, true, jb.k
		case "gzcut-file", "gzflip-file":
			zz := append([]byte{}, z...)
			if jb.kind == "gzcut-file" {
				zz = zz[:jb.k]
			} else {
				zz[jb.k] ^= 0xff
			}
			p := filepath.Join(d, "in.log.gz")
			os.WriteFile(p, zz, 0o644)
			run.Args = []string{"redact", p}
			if ji%2 == 0 {
				// faster decompressors may be installed: pigz, unpigz, zcat, igzip on PATH (here: wrappers around gzip)
				bin := filepath.Join(d, "bin")
				os.Mkdir(bin, 0o755)
				for _, tool := range []string{"pigz", "unpigz", "igzip", "rapidgzip"} {
					os.WriteFile(filepath.Join(bin, tool), []byte("#!/bin/sh\nexec gzip \"$@\"\n"), 0o755)
				}
				run.Env = append(run.Env, "PATH="+bin+":"+os.Getenv("PATH"))
			}
		}
		r := s.CLI(run)
		if r.TimedOut {
			c.Inconclusive("watchdog")
			return
		}
		readOut()
		if jb.kind == "pipe" || jb.kind == "gzcut-file" || jb.kind == "gzflip-file" {
			got = r.Stdout
		}
		failed := r.Exit != 0
		what := fmt.Sprintf("%s k=%d on %s", jb.kind, jb.k, in.name)
		rp := map[string]any{"kind": "cli-fault", "fault": what, "exit": r.Exit, "signal": r.Signal, "stderr": short(r.Stderr, 300), "bytes_in_sink": len(got), "fault_free_bytes": len(F)}
		c.Eval("cli|" + what)
		if sut.Crashed(r.Stderr) {
			c.Violation("crash|"+jb.kind, what+": runtime crash: "+short(r.Stderr, 200), rp)
			return
		}
		switch jb.kind {
		case "rlimit-ofile", "rlimit-stdout":
			c.Count("rlimit_points", 1)
			if !bytes.HasPrefix(F, got) {
				c.Violation("not-a-prefix|"+jb.kind, what+": the file content is not a prefix of the fault-free output", rp)
			} else if jb.k >= len(F) {
				if failed || !bytes.Equal(got, F) {
					c.Violation("spurious-failure|"+jb.kind, what+": limit not reached but the run failed or is incomplete", rp)
				}
			} else if !failed {
				c.Violation("silent-truncation|"+jb.kind, fmt.Sprintf("%s: exit 0 although the file holds only %d of %d bytes", what, len(got), len(F)), rp)
			} else if len(got) > jb.k {
				c.Inconclusive("RLIMIT_FSIZE did not bite")
			}
		case "devfull-ofile", "devfull-stdout":
			c.Count("devfull_runs", 1)
			if !failed {
				c.Violation("silent-truncation|"+jb.kind, what+": exit 0 although every write to /dev/full fails", rp)
			}
		case "pipe":
			c.Count("closed_pipe_runs", 1)
			if !bytes.HasPrefix(F, got) {
				c.Violation("not-a-prefix|pipe", what+": bytes read from the pipe are not a prefix of the fault-free output", rp)
			}
			// the pipe buffer may legitimately swallow a whole small output
			if !failed && len(F) > jb.k+(1<<17) {
				c.Violation("silent-truncation|pipe", fmt.Sprintf("%s: exit 0 although the reader closed the pipe after %d of %d bytes", what, jb.k, len(F)), rp)
			}
		case "gzcut-file":
			c.Count("damaged_gz_files", 1)
			if !failed {
				c.Violation("truncated-gzip-accepted|cli", what+": exit 0 for a truncated .gz file", rp)
			}
			if !bytes.HasPrefix(F, got) || !lineBoundary(got) {
				c.Violation("not-a-prefix|gzcut-file", what+": stdout is not a whole-line prefix of the fault-free output", rp)
			}
		case "gzflip-file":
			c.Count("damaged_gz_files", 1)
			if !failed && !bytes.Equal(got, F) {
				c.Violation("silent-corruption|gzflip-file", what+": exit 0 but the output differs from the fault-free output", rp)
			}
		}
		if failed && len(bytes.TrimSpace(r.Stderr)) == 0 && r.Signal == "" {
			c.Count("cli_failures_without_message", 1)
		}
	})
	if thorough(c) {
		c08Strace(s, c, paths[1], inps[1].F)
	}
}

// c08Strace (thorough): ENOSPC on the K-th write to the output file, EIO on
// the K-th read of the input file, injected with strace.
func c08Strace(s *sut.SUT, c *ev.Check, in string, F []byte) {
	if exec.Command("strace", "-o", "/dev/null", "true").Run() != nil {
		c.Set("strace_available", false)
		return
	}
	c.Set("strace_available", true)
	type job struct {
		kind string
		k    int
	}
	var jobs []job
	for _, k := range []int{1, 2, 3, 10, 50, 200, 400} {
		jobs = append(jobs, job{"write", k})
	}
	for _, k := range []int{1, 2, 3, 5, 10} {
		jobs = append(jobs, job{"read", k})
	}
	parallelDo(len(jobs), func(ji int) {
		jb := jobs[ji]
		d := s.TempDir("c08s")
		defer os.RemoveAll(d)
		outp := filepath.Join(d, "out.log")
		var wrap []string
		if jb.kind == "write" {
			wrap = []string{"strace", "-f", "-o", "/dev/null", "-P", outp, "-e", "trace=write", "-e", fmt.Sprintf("inject=write:error=ENOSPC:when=%d+", jb.k)}
		} else {
			wrap = []string{"strace", "-f", "-o", "/dev/null", "-P", in, "-e", "trace=read", "-e", fmt.Sprintf("inject=read:error=EIO:when=%d+", jb.k)}
		}
		os.WriteFile(outp, nil, 0o644)
		r := s.CLI(sut.Run{Args: []string{"redact", in}, Dir: d, StdoutFile: outp, Wrap: wrap, Env: []string{"GOCOVERDIR="}})
		got, _ := os.ReadFile(outp)
		c.Count("strace_injections", 1)
		rp := map[string]any{"kind": "cli-fault", "fault": fmt.Sprintf("strace %s #%d+", jb.kind, jb.k), "exit": r.Exit, "stderr": short(r.Stderr, 300)}
		if !bytes.HasPrefix(F, got) {
			c.Violation("not-a-prefix|strace-"+jb.kind, "the sink content is not a prefix of the fault-free output", rp)
		}
		if !bytes.Equal(got, F) && r.Exit == 0 {
			c.Violation("silent-truncation|strace-"+jb.kind, fmt.Sprintf("exit 0 although only %d of %d bytes arrived", len(got), len(F)), rp)
		}
	})
}

// c08Atlas: Atlas mode processes one downloaded file per host. A read or write
// failure on ANY of them — a gzip payload that ends early or is not gzip, an
// over-long line, an output file that cannot be created, a download cut
// mid-body or answered with an error status — must end the run with a
// non-zero status, and what <out>.<i> holds must be whole lines of host i's
// correct redaction: complete for the hosts processed before the failure, a
// prefix for the failing one.
func c08Atlas(s *sut.SUT, c *ev.Check) {
	faults := []string{"truncated-gzip", "over-long-line", "not-gzip", "output-path-is-a-directory", "cut-half", "status-500", "reset-before-headers"}
	var cases []c17Case
	for n := 2; n <= 3; n++ {
		for k := 0; k < n; k++ {
			for _, f := range faults {
				cases = append(cases, c17Case{n, k, f})
			}
		}
	}
	parallelDo(len(cases), func(ci int) {
		cs := cases[ci]
		label := fmt.Sprintf("atlas n=%d k=%d %s", cs.n, cs.k+1, cs.fault)
		cfg, _, raws, _ := c17Build(c.Seed+77, ci, cs)
		srv, err := atlasfake.New(cfg)
		if err != nil {
			c.Inconclusive("fake endpoint: " + err.Error())
			return
		}
		defer srv.Close()
		dir := s.TempDir("c08a")
		defer os.RemoveAll(dir)
		outp := filepath.Join(dir, "out.log")
		if cs.fault == "output-path-is-a-directory" {
			os.MkdirAll(fmt.Sprintf("%s.%d", outp, cs.k), 0o755)
		}
		flags := [][]string{nil, {"-n", "-b"}}[ci%2]
		env := append(atlasEnv(srv, dir), "ATLAS_PUBLIC_KEY="+atlasPub, "ATLAS_PRIVATE_KEY="+atlasPriv)
		args := append([]string{"redact", "--atlasProjectId", cfg.Project, "--atlasClusterName", cfg.Cluster, "-o", outp}, flags...)
		r := s.CLI(sut.Run{Args: args, Dir: dir, Env: env, Timeout: 3 * time.Minute})
		if r.TimedOut {
			c.Inconclusive("watchdog on an Atlas CLI run")
			return
		}
		c.Count("atlas_fault_runs", 1)
		c.Eval("cli|" + label)
		rp := map[string]any{"kind": "atlas-fault", "level": "cli", "case": label, "exit": r.Exit, "stderr": short(bytes.TrimSpace(r.Stderr), 300)}
		if len(srv.Log()) == 0 {
			c.Inconclusive(label + ": the CLI never reached the fake endpoint")
			return
		}
		if r.Exit == 0 {
			// a line "beyond the reader's limit" is a fault only for a reader whose limit it exceeds: when the same
			// binary redacts that payload from a plain file without complaint, the line is an ordinary line for it
			// and the Atlas run may succeed too - with every per-host output complete
			withinLimit := false
			if cs.fault == "over-long-line" && cs.k >= 0 && cs.k < len(raws) && raws[cs.k] != nil {
				if want, ok := expectRedaction(s, flags, raws[cs.k]); ok {
					got, _ := os.ReadFile(fmt.Sprintf("%s.%d", outp, cs.k))
					withinLimit = bytes.Equal(got, want)
					c.Count("atlas_long_lines_within_the_reader_limit", 1)
				}
			}
			if !withinLimit {
				c.Violation("silent|atlas|"+cs.fault, fmt.Sprintf("%s: the fault on host %d of %d was injected but the run exited 0 (stderr: %s)", label, cs.k+1, cs.n, short(bytes.TrimSpace(r.Stderr), 160)), rp)
			}
		}
		downloadFault := cs.fault == "cut-half" || cs.fault == "status-500" || cs.fault == "reset-before-headers"
		for i := 0; i < cs.n; i++ {
			got, gerr := os.ReadFile(fmt.Sprintf("%s.%d", outp, i))
			if gerr != nil {
				continue // absent (or a directory): nothing was emitted there
			}
			if downloadFault {
				// nothing may be redacted at all when a download failed; an output file, if any, is judged as a prefix
			}
			if raws[i] == nil {
				if len(got) > 0 {
					c.Violation("output-from-damaged-input|atlas", fmt.Sprintf("%s: %s.%d holds %d bytes although host %d's payload is not a gzip stream", label, filepath.Base(outp), i, len(got), i+1), rp)
				}
				continue
			}
			want, _ := expectRedaction(s, flags, raws[i])
			c.Count("atlas_output_files_compared", 1)
			if !bytes.HasPrefix(want, got) || !lineBoundary(got) {
				c.Violation("not-a-prefix|atlas", fmt.Sprintf("%s: %s.%d (%d bytes) is not a whole-line prefix of the redaction of host %d's log (%d bytes)", label, filepath.Base(outp), i, len(got), i+1, len(want)), rp)
			} else if i < cs.k && !downloadFault && r.Exit != 0 && !bytes.Equal(got, want) && len(got) > 0 {
				c.Count("atlas_earlier_host_output_incomplete", 1)
			}
		}
	})
}
