package checks

import (
	"fmt"
	"strings"

	"verif/gen"
	"verif/jt"
)

// C05: type-aware placeholders.
func C05() int {
	s, c, g, ok := setup("C05", "exploration")
	if !ok {
		return c.Finish("build failed")
	}
	defer s.Close()
	items := CoreCorpus(g, pickN(c, 1800, 24000))
	// a third of the lines also with ONE value shared by string leaves of all positional
	// classes (an id as a plain string here, under $oid there): the placeholder is chosen
	// by position, never by what the value was last seen as
	for i := 0; i < len(items); i += 3 {
		t2 := g.Reassign(items[i].Tree, gen.ReassignOpts{Mode: gen.CrossEqual})
		items = append(items, Item{Case: items[i].Case, Tree: t2, Raw: t2.Bytes(jt.Plain)})
	}
	reps := []*string{nil, sp(""), sp(`q"uo'te`), sp(`back\slash\\`), sp("Ωmega ñ 漢"), sp("😀"), sp(strings.Repeat("R", 1024)), sp("$lead"), sp("line\nbreak\ttab"), sp("100%s %d%%"),
		// characters JSON spells differently from Go / C string syntax: C0 controls without a short escape, DEL, C1, tag and private-use characters, separators, BOM
		sp("\x1b[31mRED\x1b[0m"), sp("bel\x07vt\x0bff\x0cdel\x7fc1\u0085"), sp("tag\U000E0001pua\U000F0000\u2028\u2029\ufeff\ufffe"), sp("&lt;b&gt; <b> & \\u0026 \\n")}
	var fsets []Flags
	for i, r := range reps {
		fsets = append(fsets, Flags{R: r, N: i%2 == 0, B: i%3 != 1, I: i%4 == 0, W: i%5 == 3})
	}
	fsets = append(fsets, Flags{}, Flags{N: true}, Flags{B: true}, Flags{F: "db", N: true, B: true}, Flags{F: "db", R: sp("zz")},
		// the replacement text is the value placeholder whatever other switches are on: with field-name redaction too
		Flags{F: "db", R: sp(`n.a. "x" \ y/z`)}, Flags{F: "db", R: sp("geschwärzt 漢")}, Flags{F: "db", R: sp(""), W: true})
	cells := map[string]int{}
	ls := newLeafStats()
	RunCorpus(s, items, fsets, 200, func(sn Seen) {
		if !basicOutcome(c, sn, true) {
			return
		}
		rep := sn.Flags.Replacement()
		n := 0
		WalkTagged(sn.Item.Tree, sn.Out, sn.Flags.F != "", func(o TObs) {
			if np := len(o.Path); np >= 2 && o.Path[np-1] == "subType" && o.Path[np-2] == "$binary" && o.Tag != nil && o.Tag.Role == jt.Keep && o.Mismatch == "" {
				c.Count("binary_subtypes_compared", 1)
				if o.Out.S != o.In.S {
					c.Violation("subtype-changed|"+opSig(o.Path), fmt.Sprintf("$binary.subType %q became %q at %s (flags %s)", o.In.S, trunc(o.Out.S, 40), jt.PathStr(o.Path), sn.Flags),
						replayOf(sn, map[string]any{"leaf": jt.PathStr(o.Path)}))
				}
			}
			if o.Tag == nil || !o.Own || o.Tag.Role != jt.Sens || o.Mismatch != "" {
				return
			}
			bad := ""
			switch o.Tag.Class {
			case "str":
				if o.Out.S != rep {
					bad = fmt.Sprintf("ordinary string became %q, not the replacement text %q", trunc(o.Out.S, 60), trunc(rep, 60))
				}
			case "email":
				if !reEmail.MatchString(o.Out.S) {
					bad = fmt.Sprintf("e-mail-shaped string became %q, which is not e-mail-shaped", trunc(o.Out.S, 60))
				}
			case "date":
				if !validDate(o.Out.S) {
					bad = fmt.Sprintf("$date string became %q, not a parseable ISO-8601 instant", trunc(o.Out.S, 60))
				}
			case "oid":
				if !reOID.MatchString(o.Out.S) {
					bad = fmt.Sprintf("$oid became %q, not 24 hex digits", trunc(o.Out.S, 60))
				}
			case "b64":
				if !validB64(o.Out.S) {
					bad = fmt.Sprintf("$binary.base64 became %q, not valid base64", trunc(o.Out.S, 60))
				}
			case "num":
				if sn.Flags.N {
					if !isZeroNum(o.Out.S) {
						bad = fmt.Sprintf("number became %s under --redactNumbers, not 0", o.Out.S)
					}
				} else if o.Out.S != o.In.S {
					bad = fmt.Sprintf("number %s became %s without --redactNumbers", o.In.S, o.Out.S)
				}
			case "bool":
				if sn.Flags.B {
					if o.Out.B {
						bad = "boolean is true under --redactBooleans, not false"
					}
				} else if o.Out.B != o.In.B {
					bad = "boolean changed without --redactBooleans"
				}
			}
			n++
			ls.mu.Lock()
			cells[o.Tag.Class+"/"+slotFamily(o.Tag.Slot)]++
			ls.mu.Unlock()
			if bad != "" {
				c.Violation("placeholder-"+o.Tag.Class+"|"+opSig(o.Path), fmt.Sprintf("%s at %s (flags %s)", bad, jt.PathStr(o.Path), sn.Flags),
					replayOf(sn, map[string]any{"leaf": jt.PathStr(o.Path)}))
			}
		})
		c.Count("sens_leaves_validated", n)
		key := ""
		if n > 0 {
			key = string(sn.Item.Raw) + sn.Flags.String()
		}
		c.Eval(key)
		if sn.Variant == 2 {
			c.Sample(map[string]any{"flags": sn.Flags.String(), "input": short(sn.Item.Raw, 500), "output": short(sn.Res.Out, 500)})
		}
	})
	optionHistory(s, c, items)
	reportBatchAnomalies(c)
	raceVerdict(s, c)
	c.Set("leaves_by_class_and_slot_family", cells)
	c.Set("flag_sets", flagNames(fsets))
	thin := 0
	for _, cl := range []string{"str", "email", "date", "oid", "b64", "num", "bool"} {
		for _, fam := range []string{"filter", "cmp-op", "in-array", "update", "insert", "match-expr", "search"} {
			if cells[cl+"/"+fam] < 10 {
				thin++
			}
		}
	}
	c.Set("class_x_slot_cells_below_10", thin)
	if c.Counter("sens_leaves_validated") < 20000 {
		c.Inconclusive("too few leaves validated")
	}
	c.Assume("wrappers the statement does not list ($numberLong, $uuid, $timestamp, …) are ordinary strings: they must become the replacement text")
	c.Assume("the e-mail class is judged with a conservative e-mail grammar, not the tool's regexp")
	return c.Finish("grammar lines under 9 replacement strings (default, empty, quotes, backslashes, non-ASCII, emoji, 1 KiB, $-leading, control characters) and mixed -n/-b/-i/-w/-f; every aligned sensitive leaf is validated with the driver's own class validator (RFC 3339 parser, strict base64, 24-hex, e-mail grammar, exact replacement text after JSON decoding, numeric zero, false); distinct by line+flags, non-trivial when ≥1 leaf validated")
}

func slotFamily(slot string) string {
	switch {
	case strings.HasPrefix(slot, "search") || strings.HasPrefix(slot, "vector") || strings.HasPrefix(slot, "rankFusion"):
		return "search"
	case strings.HasPrefix(slot, "under-") || strings.HasPrefix(slot, "elemMatch"):
		return "cmp-op"
	case strings.HasPrefix(slot, "in-") || strings.Contains(slot, "each") || strings.HasPrefix(slot, "pull"):
		return "in-array"
	case strings.HasPrefix(slot, "update") || strings.HasPrefix(slot, "push") || strings.HasPrefix(slot, "addToSet"):
		return "update"
	case strings.HasPrefix(slot, "insert"):
		return "insert"
	case strings.HasPrefix(slot, "filter"):
		return "filter"
	}
	return "match-expr"
}
