package checks

import (
	"fmt"

	"verif/ev"
	"verif/sut"
)

func bp(b bool) *bool { return &b }

// setCmd translates a flag set into the agent's setter command (the same
// setters main() calls).
func setCmd(f Flags) sut.AgentCmd {
	c := sut.AgentCmd{"op": "set", "replacement": f.Replacement(), "numbers": f.N, "booleans": f.B, "ips": f.I, "namespaces": f.W,
		"regexp": f.Z, "encrypt": f.Enc}
	if f.F != "" {
		c["eager"] = []string{f.F}
	} else {
		c["eager"] = []string{}
	}
	if f.Enc {
		c["key_b64"] = TestKeyB64
	} else {
		c["key_b64"] = ""
	}
	return c
}

// AgentRedact runs lines through RedactMongoLog+MarshalOrdered in-process
// under the given flags; one result per line: out / err / panic.
func AgentRedact(s *sut.SUT, f Flags, lines [][]byte) ([]map[string]any, error) {
	ls := make([]string, len(lines))
	for i, l := range lines {
		ls[i] = string(l)
	}
	recs, crashed, res, err := s.Agent([]sut.AgentCmd{setCmd(f), {"op": "redact", "lines": ls}}, nil, 0)
	if err != nil {
		return nil, err
	}
	if crashed >= 0 || len(recs) < 2 {
		return nil, fmt.Errorf("agent died during command %d: %s", crashed, short(res.Stderr, 800))
	}
	outs, _ := recs[1]["outs"].([]any)
	out := make([]map[string]any, len(outs))
	for i, o := range outs {
		out[i], _ = o.(map[string]any)
	}
	if len(out) != len(lines) {
		return nil, fmt.Errorf("agent returned %d results for %d lines", len(out), len(lines))
	}
	return out, nil
}

// agentCrossCheck: the CLI (flag wiring, file reader, writer) and the library
// entry points must produce byte-identical lines for the same input and the
// equivalent settings.
func agentCrossCheck(s *sut.SUT, c *ev.Check, items []Item, fsets []Flags) {
	n := 150
	if len(items) < n {
		n = len(items)
	}
	step := len(items) / n
	var sub []Item
	for i := 0; i < n; i++ {
		sub = append(sub, items[i*step])
	}
	lines := make([][]byte, len(sub))
	for i, it := range sub {
		lines[i] = it.Raw
	}
	parallelDo(len(fsets), func(fi int) {
		f := fsets[fi]
		cli := RunLines(s, f, fi, lines)
		ag, err := AgentRedact(s, f, lines)
		if err != nil {
			c.Inconclusive("agent channel: " + firstLine(err.Error()))
			return
		}
		for i := range lines {
			c.Count("cli_vs_inprocess_lines_compared", 1)
			a, _ := ag[i]["out"].(string)
			if cli[i].Out == nil && ag[i]["out"] == nil {
				continue
			}
			if string(cli[i].Out) != a {
				sn := Seen{Item: sub[i], Flags: f, Res: cli[i]}
				c.Violation("cli-vs-library|"+sub[i].Label(), fmt.Sprintf("CLI and in-process output differ under flags %s (flag wiring): cli=%s lib=%s", f, short(cli[i].Out, 200), trunc(a, 200)),
					replayOf(sn, map[string]any{"library_output": a}))
			}
		}
	})
}
