package checks

import (
	"fmt"

	"verif/ev"
	"verif/sut"
)

func bp(b bool) *bool { return &b }

// setCmd translates a flag set into the agent's setter command (the same
// setters main() calls).
func setCmd(f Flags) sut.AgentCmd {
	c := sut.AgentCmd{"op": "set", "replacement": f.Replacement(), "numbers": f.N, "booleans": f.B, "ips": f.I, "namespaces": f.W,
		"regexp": f.Z, "encrypt": f.Enc}
	if f.F != "" {
		c["eager"] = []string{f.F}
	} else {
		c["eager"] = []string{}
	}
	if f.Enc {
		c["key_b64"] = TestKeyB64
	} else {
		c["key_b64"] = ""
	}
	return c
}

// AgentRedact runs lines through RedactMongoLog+MarshalOrdered in-process
// under the given flags; one result per line: out / err / panic.
func AgentRedact(s *sut.SUT, f Flags, lines [][]byte) ([]map[string]any, error) {
	ls := make([]string, len(lines))
	for i, l := range lines {
		ls[i] = string(l)
	}
	recs, crashed, res, err := s.Agent([]sut.AgentCmd{setCmd(f), {"op": "redact", "lines": ls}}, nil, 0)
	if err != nil {
		return nil, err
	}
	if crashed >= 0 || len(recs) < 2 {
		return nil, fmt.Errorf("agent died during command %d: %s", crashed, short(res.Stderr, 800))
	}
	outs, _ := recs[1]["outs"].([]any)
	out := make([]map[string]any, len(outs))
	for i, o := range outs {
		out[i], _ = o.(map[string]any)
	}
	if len(out) != len(lines) {
		return nil, fmt.Errorf("agent returned %d results for %d lines", len(out), len(lines))
	}
	return out, nil
}

// agentCrossCheck: the CLI (flag wiring, file reader, writer) and the library
// entry points must produce byte-identical lines for the same input and the
// equivalent settings.
func agentCrossCheck(s *sut.SUT, c *ev.Check, items []Item, fsets []Flags) {
	n := 150
	if len(items) < n {
		n = len(items)
	}
	step := len(items) / n
	var sub []Item
	for i := 0; i < n; i++ {
		sub = append(sub, items[i*step])
	}
	lines := make([][]byte, len(sub))
	for i, it := range sub {
		lines[i] = it.Raw
	}
	parallelDo(len(fsets), func(fi int) {
		f := fsets[fi]
		cli := RunLines(s, f, fi, lines)
		ag, err := AgentRedact(s, f, lines)
		if err != nil {
			c.Inconclusive("agent channel: " + firstLine(err.Error()))
			return
		}
		for i := range lines {
			c.Count("cli_vs_inprocess_lines_compared", 1)
			a, _ := ag[i]["out"].(string)
			if cli[i].Out == nil && ag[i]["out"] == nil {
				continue
			}
			if string(cli[i].Out) != a {
				sn := Seen{Item: sub[i], Flags: f, Res: cli[i]}
				c.Violation("cli-vs-library|"+sub[i].Label(), fmt.Sprintf("CLI and in-process output differ under flags %s (flag wiring): cli=%s lib=%s", f, short(cli[i].Out, 200), trunc(a, 200)),
					replayOf(sn, map[string]any{"library_output": a}))
			}
		}
	})
}

// optionHistory: the redaction options are process-wide state behind setters. A long-lived
// process that changes ONE option at a time (only that setter is called) must, after every change,
// produce exactly what a fresh process configured with the same final settings produces: no memo,
// snapshot or cached primitive may survive a setter it depends on. The reference for every step
// comes from a fresh agent process that calls all setters once.
func optionHistory(s *sut.SUT, c *ev.Check, items []Item) {
	n := 120
	if len(items) < n {
		n = len(items)
	}
	step := len(items) / n
	lines := make([]string, 0, n)
	for i := 0; i < n; i++ {
		if raw := items[i*step].Raw; len(raw) < 20000 {
			lines = append(lines, string(raw))
		}
	}
	key2 := b64(bytesRepeat(0x33, 64))
	type st struct {
		name   string
		change sut.AgentCmd // the single setter called
		apply  func(f *sut.AgentCmd)
	}
	full := setCmd(Flags{})
	cur := sut.AgentCmd{}
	for k, v := range full {
		cur[k] = v
	}
	one := func(name, field string, val any) st {
		return st{name, sut.AgentCmd{"op": "set", field: val}, func(f *sut.AgentCmd) { (*f)[field] = val }}
	}
	steps := []st{
		one("numbers on", "numbers", true), one("booleans on (last setter called)", "booleans", true), one("replacement [x]", "replacement", "[x]"),
		one("booleans off", "booleans", false), one("booleans on again", "booleans", true),
		one("regexp A", "regexp", "^(status|qty|age)$"), one("regexp B directly after A", "regexp", "^(name|ssn|tags|email)$"), one("regexp off", "regexp", ""),
		one("namespaces on", "namespaces", true), one("replacement Ω", "replacement", "Ωm"), one("field names for db", "eager", []string{"db"}), one("replacement back", "replacement", "REDACTED"),
		one("field names off", "eager", []string{}), one("encrypt on", "encrypt", true), one("key 1", "key_b64", TestKeyB64), one("key 2", "key_b64", key2),
		one("unusable key (32 bytes)", "key_b64", b64(bytesRepeat(0x41, 32))), one("key 1 again", "key_b64", TestKeyB64), one("encrypt off", "encrypt", false),
		one("ips on", "ips", true), one("numbers off", "numbers", false), one("namespaces off", "namespaces", false), one("booleans off (end)", "booleans", false),
	}
	script := []sut.AgentCmd{full, {"op": "redact", "lines": lines}}
	var refs [][]sut.AgentCmd
	refs = append(refs, []sut.AgentCmd{full, {"op": "redact", "lines": lines}})
	for _, x := range steps {
		script = append(script, x.change, sut.AgentCmd{"op": "redact", "lines": lines})
		x.apply(&cur)
		snap := sut.AgentCmd{}
		for k, v := range cur {
			snap[k] = v
		}
		refs = append(refs, []sut.AgentCmd{snap, {"op": "redact", "lines": lines}})
	}
	recs, crashed, res, err := s.Agent(script, nil, 0)
	if err != nil || crashed >= 0 {
		what := "agent failed"
		if crashed >= 0 {
			what = fmt.Sprintf("the process died during command %d of the option walk (step %q)", crashed, steps[(crashed-2)/2].name)
			c.Violation("option-history|process-died", what+": "+short(res.Stderr, 300), map[string]any{"kind": "option-history"})
			return
		}
		c.Inconclusive("option history: " + what + ": " + short(res.Stderr, 200))
		return
	}
	outsOf := func(r sut.AgentRec) []any { o, _ := r["outs"].([]any); return o }
	parallelDo(len(refs), func(k int) {
		fr, cr, fres, ferr := s.Agent(refs[k], nil, 0)
		if ferr != nil || cr >= 0 || len(fr) != 2 {
			c.Inconclusive("option history reference: " + short(fres.Stderr, 200))
			return
		}
		name := "initial settings"
		if k > 0 {
			name = steps[k-1].name
		}
		a, b := outsOf(recs[1+2*k]), outsOf(fr[1])
		c.Count("option_history_steps", 1)
		for i := range lines {
			if i >= len(a) || i >= len(b) {
				break
			}
			ma, _ := a[i].(map[string]any)
			mb, _ := b[i].(map[string]any)
			c.Count("option_history_lines_compared", 1)
			if ma["panic"] != nil {
				c.Violation("option-history|panic|"+name, fmt.Sprintf("after the step %q of an option walk RedactMongoLog panicked: %v", name, ma["panic"]), map[string]any{"kind": "option-history", "step": name, "input": lines[i]})
				return
			}
			if fmt.Sprint(ma["out"]) != fmt.Sprint(mb["out"]) {
				c.Violation("option-history|"+name, fmt.Sprintf("after changing one option at a time up to %q a long-lived process gives another line than a fresh process with the same settings: %s  vs fresh  %s", name, trunc(fmt.Sprint(ma["out"]), 220), trunc(fmt.Sprint(mb["out"]), 220)),
					map[string]any{"kind": "option-history", "step": name, "input": lines[i], "long_lived": ma["out"], "fresh": mb["out"]})
				return
			}
		}
	})
}

func bytesRepeat(b byte, n int) []byte {
	o := make([]byte, n)
	for i := range o {
		o[i] = b
	}
	return o
}
