package checks

import (
	"fmt"
	"regexp"
	"strings"
	"sync"

	"verif/ev"
	"verif/gen"
	"verif/jt"
	"verif/sut"
)

// C14: selective mode redacts exactly the values under a matching field name.
//
// should_redact(leaf) := some OBJECT KEY on the path below the command
// document matches R — computed here with Go's regexp on the same pattern
// text, from the input tree only. should ⇒ out ≠ in; ¬should ⇒ out == in
// (raw number text, decoded string). The verdict never looks at the value.

type selFam struct {
	re         string
	match, non []string
}

var c14Fams = []selFam{
	{`^(ssn|phone)$`, []string{"ssn", "phone"}, []string{"ssn2", "xssn", "phoneNumber", "Ssn"}},
	{`(?i)^.*ssn.*$`, []string{"SSN", "user_ssn_id"}, []string{"s_s_n", "sn"}},
	{`mail`, []string{"email", "work_email", "mailbox"}, []string{"mai_l", "Mail"}},
	{`^[a-c]_id$`, []string{"a_id", "c_id"}, []string{"d_id", "a_idx"}},
	{`_id$`, []string{"user_id", "_id"}, []string{"id_", "identity"}},
	{`^(SSN|NHS_ID|phoneNumber)$`, []string{"NHS_ID", "phoneNumber"}, []string{"nhs_id", "phone"}},
	// unanchored patterns that also match the NAME OF A COMMAND PART ("filter", "documents",
	// "update(s)", "deletes", "query"): those are not field names on the path from the document root
	{`ter`, []string{"counter", "terms"}, []string{"status", "tier"}},
	{`doc`, []string{"docs", "doctor"}, []string{"dok", "d_oc"}},
	{`pdate`, []string{"lastupdate", "updated"}, []string{"pdat", "updat"}},
	{`elete`, []string{"deletedAt", "athlete_delete"}, []string{"delet", "eleet"}},
	{`uer`, []string{"queryId", "conquer"}, []string{"quer_", "user"}},
	// a counted repetition: the pattern text holds a comma (it reaches the tool through the shell
	// argument unchanged, whatever the flag parser does with commas in list-valued flags)
	{`^[a-z]{2,5}_id$`, []string{"user_id", "cart_id"}, []string{"x_id", "longname_id", "User_id"}},
	// names outside ASCII / with a '/' and a pattern with a literal prefix: a quarter of the lines spell
	// such names with JSON escapes (\u00e9, \/) — the name is what the escapes decode to
	{`^prénom`, []string{"prénom", "prénom2"}, []string{"prenom", "nom", "Prénom"}},
	{`in/out`, []string{"in/out", "login/outbound"}, []string{"in_out", "in\\out"}},
	// patterns that match the protocol keys of write statements (updates[].q / .u / .c, deletes[].q): those are
	// not field names; documents may of course HAVE fields called q or u, and those do count
	{`^(q|u|c|email)$`, []string{"q", "u", "email"}, []string{"qq", "uu", "mail", "k"}},
	{`q`, []string{"qty", "seq", "q"}, []string{"name", "k", "Q"}},
	{`^u`, []string{"uid", "u", "user"}, []string{"name", "k", "menu"}},
	{`limit|multi|upsert`, []string{"limits", "multiplier"}, []string{"limi", "k"}},
	// patterns that also match operator / wrapper keys on the path ($date, $in, $nin, $min, $oid, $set): not field names
	{`date`, []string{"birthdate", "updated_date"}, []string{"dat_e", "created"}},
	{`in`, []string{"pin", "login"}, []string{"name", "color"}},
	{`^.?(eq|gt|oid|set|binary|each|not)$`, []string{"oid", "set"}, []string{"void", "sets"}},
	// case-insensitive alternatives written with capitals
	{`(?i)^(SSN|phoneNumber|Zip)$`, []string{"ssn", "SSN", "phonenumber", "PhoneNumber", "zip"}, []string{"ssn2", "phone", "zipcode"}},
	{`(?i)^EMAIL$`, []string{"email", "Email", "EMAIL"}, []string{"emails", "e_mail"}},
}

// keys that are part of the command / stage grammar, not field names of the document: the zone key
// itself, the statement members of updates[] / deletes[], and arguments of stages and expressions.
// A pattern that matches one of the latter (or any '$' operator) on a leaf's path makes the verdict
// a matter of interpretation: such leaves are counted, not judged.
var c14StageArgKeys = map[string]bool{"pipeline": true, "let": true, "from": true, "as": true, "into": true, "coll": true, "db": true, "newRoot": true, "input": true, "in": true, "cond": true, "vars": true, "branches": true, "case": true, "then": true, "else": true, "default": true, "if": true, "initialValue": true, "output": true, "boundaries": true, "groupBy": true, "query": true, "filter": true, "whenMatched": true, "startWith": true, "restrictSearchWithMatch": true, "partitionBy": true, "sortBy": true, "range": true, "bounds": true, "near": true, "documents": true, "update": true, "updates": true, "deletes": true, "sort": true}

var c14Search = map[string]bool{"$search": true, "$searchMeta": true, "$vectorSearch": true, "$rankFusion": true}

func c14Judge(c *ev.Check, re *regexp.Regexp, sn Seen, cells map[string]int, mu *sync.Mutex) {
	n := 0
	// leaves reachable from an array that holds a matching '$field' reference through
	// directly nested arrays only (["$ssn", ["a","b"]]): the tool may tie them to that field
	refChain := map[*jt.Node]bool{}
	var mark func(nd *jt.Node, inChain bool)
	mark = func(nd *jt.Node, inChain bool) {
		switch nd.K {
		case jt.Arr:
			has := inChain
			for _, e := range nd.Vals {
				if e.K == jt.Str && strings.HasPrefix(e.S, "$") && re.MatchString(strings.TrimLeft(e.S, "$")) {
					has = true
				}
			}
			for _, e := range nd.Vals {
				if e.K == jt.Arr {
					mark(e, has)
				} else if e.K == jt.Obj {
					mark(e, false)
				} else if has {
					refChain[e] = true
				}
			}
		case jt.Obj:
			for _, e := range nd.Vals {
				mark(e, false)
			}
		}
	}
	mark(sn.Item.Tree, false)
	WalkTagged(sn.Item.Tree, sn.Out, false, func(o TObs) {
		if o.Tag == nil || !o.Own || o.Tag.Role != jt.Sens || o.Mismatch != "" || len(o.Path) < 3 {
			return
		}
		should, inSearch, ambiguous := false, false, false
		zone := o.Path[2]
		for i, p := range o.Path[2:] {
			if strings.HasPrefix(p, "[") {
				continue
			}
			if c14Search[p] {
				inSearch = true
			}
			if i == 0 || (i == 2 && (zone == "updates" || zone == "deletes")) {
				continue // the command part's own name / the statement member (q, u, c, limit …): not a field name
			}
			if strings.HasPrefix(p, "$") {
				continue // operators and extended-JSON wrappers ($in, $date, $set ...) are not field names: they never make a path match
			}
			if re.MatchString(p) {
				if c14StageArgKeys[p] {
					ambiguous = true
				} else {
					should = true
				}
			}
		}
		if inSearch {
			c.Count("leaves_in_search_stages_not_judged", 1)
			return
		}
		if ambiguous && !should {
			c.Count("leaves_under_a_matching_operator_or_stage_argument_not_judged", 1)
			return
		}
		if !should {
			// a dotted key ("address.zip") whose COMPONENT matches while the whole key does not:
			// whether that is "a field name on the path" is open — not judged either way
			for _, p := range o.Path[2:] {
				if strings.Contains(p, ".") && !strings.HasPrefix(p, "[") {
					for _, comp := range strings.Split(p, ".") {
						if re.MatchString(comp) {
							c.Count("leaves_under_ambiguous_dotted_keys_not_judged", 1)
							return
						}
					}
				}
			}
		}
		// '$field' sibling in the same expression array: the tool may tie the literal
		// to that field; the statement is silent, so such leaves are judged only when
		// the sibling does NOT match either
		sib := refChain[o.In]
		changed := false
		switch o.In.K {
		case jt.Str:
			changed = o.In.S != o.Out.S
		case jt.Num:
			changed = o.In.S != o.Out.S
			if !sn.Flags.N {
				if changed {
					c.Violation("number-changed-without-n|"+o.Tag.Slot, fmt.Sprintf("number %s at %s became %s although --redactNumbers is off (regexp %s)", o.In.S, jt.PathStr(o.Path), o.Out.S, re), replayOf(sn, nil))
				}
				return
			}
		case jt.Bool:
			changed = o.In.B != o.Out.B
			if !sn.Flags.B {
				if changed {
					c.Violation("boolean-changed-without-b|"+o.Tag.Slot, fmt.Sprintf("boolean at %s changed although --redactBooleans is off", jt.PathStr(o.Path)), replayOf(sn, nil))
				}
				return
			}
			if !o.In.B {
				return // false stays false either way: carries no information
			}
		default:
			return
		}
		n++
		cell := o.Tag.Slot + "/" + o.Tag.Class
		if should {
			cell += "/under-matching-name"
		} else {
			cell += "/no-matching-name"
		}
		mu.Lock()
		cells[cell]++
		mu.Unlock()
		sig := o.Tag.Slot
		if !strings.HasPrefix(sig, "sel-") {
			sig = opSig(o.Path)
		}
		switch {
		case should && !changed:
			c.Violation("not-redacted|"+sig+"|"+o.Tag.Class, fmt.Sprintf("%s literal %s at %s is emitted unchanged although a field name on its path matches %s (flags %s)", o.Tag.Class, short(o.In.Bytes(jt.Plain), 50), jt.PathStr(o.Path), re, sn.Flags),
				replayOf(sn, map[string]any{"leaf": jt.PathStr(o.Path)}))
		case !should && !sib && changed:
			c.Violation("over-redacted|"+sig+"|"+o.Tag.Class, fmt.Sprintf("%s literal %s at %s became %s although no field name on its path matches %s (flags %s)", o.Tag.Class, short(o.In.Bytes(jt.Plain), 50), jt.PathStr(o.Path), short(o.Out.Bytes(jt.Plain), 50), re, sn.Flags),
				replayOf(sn, map[string]any{"leaf": jt.PathStr(o.Path)}))
		case !should && sib:
			c.Count("leaves_next_to_a_matching_field_reference_not_judged", 1)
		}
	})
	c.Count("leaves_judged", n)
	key := ""
	if n > 0 {
		key = string(sn.Item.Raw) + sn.Flags.String()
	}
	c.Eval(key)
}

func C14() int {
	s, c, g, ok := setup("C14", "exploration")
	if !ok {
		return c.Finish("build failed")
	}
	defer s.Close()
	g.NoKeywordFields = true
	g.LongMax = 200
	cells := map[string]int{}
	var mu sync.Mutex
	type job struct {
		fam   selFam
		f     Flags
		items []Item
	}
	var jobs []job
	reps := pickN(c, 1, 4)
	for fi, fam := range c14Fams {
		names := append(append([]string{}, fam.match...), fam.non...)
		var items []Item
		for i, cs := range g.SelCatalogue(names, reps) {
			items = append(items, mkItem(cs, i))
		}
		jobs = append(jobs, job{fam, Flags{Z: fam.re}, items})
		if fi%2 == 0 || thorough(c) {
			jobs = append(jobs, job{fam, Flags{Z: fam.re, N: true, B: true, R: sp("[x]")}, items})
		}
	}
	// random grammar lines: R matches some of the generator's ordinary field names
	rfam := selFam{re: `^(ssn|name|tags|qty|owner\.id)$`}
	var ritems []Item
	ritems = CoreCorpus(g, pickN(c, 2200, 20000)) // cycles verb × carrier × component; error reports of other components (outside the line gate) are not produced
	jobs = append(jobs, job{rfam, Flags{Z: rfam.re}, ritems}, job{rfam, Flags{Z: rfam.re, N: true, B: true}, ritems})
	for _, jb := range jobs {
		re := regexp.MustCompile(jb.fam.re)
		RunCorpus(s, jb.items, []Flags{jb.f}, 300, func(sn Seen) {
			if !basicOutcome(c, sn, true) {
				return
			}
			c14Judge(c, re, sn, cells, &mu)
			if sn.Variant%40 == 0 {
				c.Sample(map[string]any{"flags": sn.Flags.String(), "input": short(sn.Item.Raw, 500), "output": short(sn.Res.Out, 500)})
			}
		})
	}
	c14CrossCheck(s, c, jobs[0].items, jobs[0].f)
	optionHistory(s, c, ritems)
	reportBatchAnomalies(c)
	c.Set("cells_wrapper_class_verdict", cells)
	thin := 0
	for _, b := range gen.SelBuilderNames() {
		for _, cl := range []string{"str", "email", "date", "oid", "b64"} {
			for _, v := range []string{"under-matching-name", "no-matching-name"} {
				if cells["sel-"+b+"/"+cl+"/"+v] < 10 {
					thin++
				}
			}
		}
	}
	c.Set("wrapper_x_class_x_verdict_cells_below_10", thin)
	var res []string
	for _, f := range c14Fams {
		res = append(res, f.re)
	}
	c.Set("regexps", append(res, rfam.re))
	raceVerdict(s, c)
	if c.Counter("leaves_judged") < 30000 {
		c.Inconclusive(fmt.Sprintf("only %d leaves judged", c.Counter("leaves_judged")))
	}
	c.Assume("Atlas Search / vector-search stages are not judged (they may redact more)")
	c.Assume("numbers / booleans are judged only together with -n / -b; a literal next to a matching '$field' reference in the same expression array is not judged")
	c.Assume("regexps are chosen so that they match no operator or structural key; dotted keys whose components match while the whole key does not are not generated")
	return c.Finish("catalogue: every wrapper between a field name and a literal (direct, comparison operators, $in/$nin/$all, $elemMatch, $not, array-valued, arrays of sub-documents, nested arrays, sub-documents, $and/$or, $expr pairs, update operators incl. $each/$pull/$pullAll, replacement documents, delete, insert, WRITE-style, $match/$addFields, $lookup.pipeline, $facet) × matching and non-matching names × 7 literal classes × 6 regexps (anchored alternatives, case-insensitive, unanchored substring, class, suffix, README example), plus random grammar lines; per leaf: should_redact from the names on the path only; non-trivial = ≥1 judged leaf, distinct by line+flags")
}

// c14CrossCheck: CLI and in-process redactor agree in selective mode.
func c14CrossCheck(s *sut.SUT, c *ev.Check, items []Item, f Flags) {
	agentCrossCheck(s, c, items, []Flags{f})
}
