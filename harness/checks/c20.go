package checks

import (
	"bytes"
	"encoding/base64"
	"fmt"
	"net/url"
	"os"
	"path/filepath"
	"strings"
	"sync"
	"time"

	"verif/atlasfake"
	"verif/gen"
	"verif/sut"
)

// C20: the Atlas private key never leaves the process except as a digest
// response. Every byte the fake endpoint received (CONNECT preamble and the
// decrypted request stream, recorded below the HTTP parser), stdout, stderr
// and every file the run left behind are searched for every encoding of the
// key; requests are scanned for credential material sent without a Digest
// challenge.

type c20Behaviour struct {
	name      string
	auth      string
	cluster   atlasfake.Fault
	hostFault atlasfake.Fault
	notGzip   bool
	challenge bool // the server sends a Digest challenge
}

var c20Behaviours = []c20Behaviour{
	{name: "digest-success", auth: "digest", challenge: true},
	{name: "no-challenge-200", auth: "none"},
	{name: "basic-challenge", auth: "basic"},
	{name: "always-401", auth: "always401", challenge: true},
	{name: "403-echo-after-digest", auth: "status:403", challenge: true},
	{name: "404-echo-after-digest", auth: "status:404", challenge: true},
	{name: "500-echo-after-digest", auth: "status:500", challenge: true},
	{name: "malformed-challenge", auth: "malformed"},
	// well-formed Digest challenges the client may not be able to answer: a list of qop values, auth-int only, another algorithm
	{name: "digest-qop-list", auth: "digest-qop-list", challenge: true},
	{name: "digest-qop-auth-int", auth: "digest-qop-auth-int", challenge: true},
	{name: "digest-sha256", auth: "digest-sha256", challenge: true},
	{name: "cluster-reset", auth: "digest", cluster: atlasfake.Fault{Kind: "reset"}, challenge: true},
	{name: "cluster-500-echo", auth: "digest", cluster: atlasfake.Fault{Kind: "status", Status: 500}, challenge: true},
	{name: "host-401-echo", auth: "digest", hostFault: atlasfake.Fault{Kind: "status", Status: 401}, challenge: true},
	{name: "host-500-echo", auth: "digest", hostFault: atlasfake.Fault{Kind: "status", Status: 500}, challenge: true},
	// transient refusals of an already authenticated download (Retry-After: 0): whether or not the client tries again
	{name: "host-429-retry-after", auth: "digest", hostFault: atlasfake.Fault{Kind: "status", Status: 429}, challenge: true},
	{name: "host-503-retry-after", auth: "digest", hostFault: atlasfake.Fault{Kind: "status", Status: 503}, challenge: true},
	{name: "host-502-retry-after", auth: "digest", hostFault: atlasfake.Fault{Kind: "status", Status: 502}, challenge: true},
	{name: "cluster-503-retry-after", auth: "digest", cluster: atlasfake.Fault{Kind: "status", Status: 503}, challenge: true},
	{name: "host-reset", auth: "digest", hostFault: atlasfake.Fault{Kind: "reset"}, challenge: true},
	{name: "host-cut-half", auth: "digest", hostFault: atlasfake.Fault{Kind: "cut", CutAt: 40}, challenge: true},
	{name: "host-not-gzip", auth: "digest", notGzip: true, challenge: true},
}

var c20Keys = []string{
	"pr1v-KEY_zq7-9f3c2b7e",
	"p@ss:w/rd?x=1&y=2#frag%41+plus",
	"AbC+/=xyz==k3+/zq9",
	"Zk3mQp8Lx2Vn7Rt5Yw1Bc6Df0Gh4Js9KaUeIoPlMnBvCxZqWsEdRfTgYhUjIkOl12",
	`sp ace"quote'\back`,
	// characters that mean something to a regular expression / a format string / a shell
	`Kq7(xP2+mZ9-w4Tn`,
	`*st[ar]{2,}|^$.?%s%d%!x\`,
	// very short keys (legal for the CLI, however supplied): anything that shows "only the last four
	// characters" or pads to a minimum width shows all of them
	`Zq7!`, "§¶", `~Zq^7`,
	// shapes other credential schemes give a meaning to: a service-account secret, a curl-style @file reference, scheme prefixes
	`mdb_sa_sk_Zr8+Qw/7pL=x2VnT-9f3c2b7e1a`, `@Zq7-private-key-file.txt`, `file:///Zq7/atlas-private.key`, `env:ZQ7_ATLAS_SECRET`, `Bearer zq7eyJhbGciOiJIUzI1NiJ9`,
}

var c20Pubs = []string{"pubKEYzq7", "pub:colon@x", "mdb_sa_id_6f1e2d3c4b5a69788796a5b4"}

var c20Supplies = []string{"flags", "flags-equals-form", "env", "pub-flag+priv-env", "pub-env+priv-flag"}

func c20Needles(pub, priv string) map[string]string {
	n := map[string]string{}
	add := func(what, v string) {
		if len(v) >= 4 {
			if _, dup := n[v]; !dup {
				n[v] = what
			}
		}
	}
	add("verbatim", priv)
	add("query-escaped", url.QueryEscape(priv))
	add("path-escaped", url.PathEscape(priv))
	for _, e := range []struct {
		n string
		e *base64.Encoding
	}{{"base64", base64.StdEncoding}, {"base64url", base64.URLEncoding}, {"base64 (no padding)", base64.RawStdEncoding}, {"base64url (no padding)", base64.RawURLEncoding}} {
		add(e.n+" of the key", e.e.EncodeToString([]byte(priv)))
		add(e.n+" of public:private", e.e.EncodeToString([]byte(pub+":"+priv)))
	}
	add("JSON-escaped", strings.Trim(fmt.Sprintf("%q", priv), `"`))
	return n
}

func C20() int {
	s, c, _, ok := setup("C20", "fault_enumeration")
	if !ok {
		return c.Finish("build failed")
	}
	defer s.Close()
	gg := gen.New(c.Seed*2003 + 20)
	gg.LongMax, gg.MaxDepth = 80, 2
	_, payloadGz := atlasPayload(gg, 0, 6, 1)
	type job struct {
		b      c20Behaviour
		supply string
		ki, pi int
		lib    bool
		odd    int // > 0: project / cluster names that do not fit into a URL as they are
	}
	oddNames := [][2]string{{"", ""}, {"5f0000000000000000c20c20", "prod%zz"}, {"5f0000000000000000c20c20", "Cluster\r"}, {"proj ect", "Cluster C20"}, {"5f00%00", "C\x7f20"}, {"5f0000000000000000c20c20", "a/../b?x=1#f"}, {"\x00p", "Clu\nster"}}
	var jobs []job
	for bi, b := range c20Behaviours {
		for si, sup := range c20Supplies {
			for ki := range c20Keys {
				if false {
					continue // quick: every behaviour × supply × key cell still appears once over two seeds' parity; all behaviours × supplies covered
				}
				jobs = append(jobs, job{b, sup, ki, (bi + si + ki) % len(c20Pubs), false, 0})
			}
		}
		for ki := range c20Keys {
			jobs = append(jobs, job{b, "library", ki, ki % len(c20Pubs), true, 0})
		}
	}
	// names that cannot be put into a request URL as they are: whatever the tool does with them
	// (escape them, refuse them), the message must not carry the key
	for oi := 1; oi < len(oddNames); oi++ {
		for si, sup := range c20Supplies {
			jobs = append(jobs, job{c20Behaviours[0], sup, (oi + si) % len(c20Keys), oi % len(c20Pubs), false, oi}, job{c20Behaviours[11], "library", (oi + si) % len(c20Keys), oi % len(c20Pubs), true, oi})
		}
	}
	c.Set("runs", len(jobs))
	const project0, cluster0, host = "5f0000000000000000c20c20", "ClusterC20", "c20-shard-00-00.abcde.mongodb.net"
	parallelDo(len(jobs), func(ji int) {
		jb := jobs[ji]
		pub, priv := c20Pubs[jb.pi], c20Keys[jb.ki]
		project, cluster := project0, cluster0
		if jb.odd > 0 {
			project, cluster = oddNames[jb.odd][0], oddNames[jb.odd][1]
		}
		needles := c20Needles(pub, priv)
		var dirNow string // the CLI run's directory, searched while the client waits for an answer
		var midMu sync.Mutex
		midHits := map[string]string{}
		pl := payloadGz
		if jb.b.notGzip {
			pl = []byte("plain text, not gzip\n")
		}
		onReq := func(string) {
			midMu.Lock()
			defer midMu.Unlock()
			if dirNow == "" {
				return
			}
			filepath.WalkDir(dirNow, func(p string, d os.DirEntry, err error) error {
				if err == nil && !d.IsDir() && filepath.Base(p) != "verif-ca.pem" {
					if b, e := os.ReadFile(p); e == nil {
						for needle, enc := range needles {
							if bytes.Contains(b, []byte(needle)) {
								rel, _ := filepath.Rel(dirNow, p)
								midHits[rel] = enc
							}
						}
					}
				}
				return nil
			})
		}
		cfg := atlasfake.Config{OnRequest: onReq, Project: project0, Cluster: cluster0, ConnStr: "mongodb://" + host + ":27017/?replicaSet=rs", Payload: map[string][]byte{host: pl}, Auth: jb.b.auth, ClusterFault: jb.b.cluster, EchoBody: true}
		if jb.b.hostFault.Kind != "" {
			cfg.Faults = map[string]atlasfake.Fault{host: jb.b.hostFault}
		}
		srv, err := atlasfake.New(cfg)
		if err != nil {
			c.Inconclusive("fake endpoint: " + err.Error())
			return
		}
		defer srv.Close()
		label := fmt.Sprintf("%s / %s / key %d", jb.b.name, jb.supply, jb.ki)
		if jb.odd > 0 {
			label += fmt.Sprintf(" / names %q %q", project, cluster)
		}
		artefacts := map[string][]byte{}
		var exit int
		if jb.lib {
			recs, crashed, res, aerr := s.Agent([]sut.AgentCmd{{"op": "atlas_download", "n": 1, "base_url": srv.URL(), "pub": pub, "priv": priv, "project": project, "cluster": cluster, "start": 1748000000, "end": 1748604800}}, []string{"VERIF_AGENT_KEEP_STDOUT=1"}, 3*time.Minute)
			if aerr != nil || crashed >= 0 || len(recs) != 1 {
				c.Inconclusive("agent failed: " + short(res.Stderr, 200))
				return
			}
			artefacts["returned error"] = []byte(fmt.Sprint(recs[0]["err"]))
			artefacts["stdout"], artefacts["stderr"] = res.Stdout, res.Stderr
			c.Count("library_runs", 1)
		} else {
			dir := s.TempDir("c20")
			defer os.RemoveAll(dir)
			midMu.Lock()
			dirNow = dir
			midMu.Unlock()
			outp := filepath.Join(dir, "out.log")
			args := []string{"redact", "--atlasProjectId", project, "--atlasClusterName", cluster, "-o", outp}
			env := atlasEnv(srv, dir)
			switch jb.supply {
			case "flags":
				args = append(args, "--atlasPublicKey", pub, "--atlasPrivateKey", priv)
			case "flags-equals-form":
				args = append(args, "--atlasPublicKey="+pub, "--atlasPrivateKey="+priv)
			case "env":
				env = append(env, "ATLAS_PUBLIC_KEY="+pub, "ATLAS_PRIVATE_KEY="+priv)
			case "pub-flag+priv-env":
				args = append(args, "--atlasPublicKey", pub)
				env = append(env, "ATLAS_PRIVATE_KEY="+priv)
			case "pub-env+priv-flag":
				args = append(args, "--atlasPrivateKey="+priv)
				env = append(env, "ATLAS_PUBLIC_KEY="+pub)
			}
			r := s.CLI(sut.Run{Args: args, Dir: dir, Env: env, Timeout: 3 * time.Minute})
			if r.TimedOut {
				c.Inconclusive("watchdog on an Atlas CLI run")
				return
			}
			exit = r.Exit
			artefacts["stdout"], artefacts["stderr"] = r.Stdout, r.Stderr
			filepath.WalkDir(dir, func(p string, d os.DirEntry, err error) error {
				if err == nil && !d.IsDir() && filepath.Base(p) != "verif-ca.pem" {
					if b, e := os.ReadFile(p); e == nil {
						rel, _ := filepath.Rel(dir, p)
						artefacts["file "+rel] = b
					}
				}
				return nil
			})
			c.Count("cli_runs", 1)
		}
		artefacts["bytes received by the endpoint"] = srv.Raw()
		log := srv.Log()
		c.Count("requests_logged", len(log))
		c.Eval(label)
		rp := map[string]any{"kind": "atlas-key", "case": label, "server_behaviour": jb.b.name, "key_supply": jb.supply, "private_key": priv, "public_key": pub, "exit": exit, "requests": logURLs(log), "stderr": short(artefacts["stderr"], 400)}
		if len(log) == 0 && jb.odd == 0 {
			c.Violation("no-request-recorded", label+": the run never reached the fake endpoint: "+short(artefacts["stderr"], 200), rp)
			return
		}
		midMu.Lock()
		for rel, enc := range midHits {
			c.Violation("private-key-visible|file during the run|"+strings.Fields(enc)[0], fmt.Sprintf("%s: while the run was waiting for the endpoint's answer the private key (%s) was in the file %s", label, enc, rel), rp)
		}
		c.Count("mid_run_directory_scans", 1)
		midMu.Unlock()
		for where, data := range artefacts {
			for needle, enc := range needles {
				c.Count("needle_searches", 1)
				if bytes.Contains(data, []byte(needle)) {
					w := where
					if strings.HasPrefix(w, "file tmp/") {
						w = "file in TMPDIR"
					} else if strings.HasPrefix(w, "file ") {
						w = "output file"
					}
					c.Violation("private-key-visible|"+w+"|"+strings.Fields(enc)[0], fmt.Sprintf("%s: the private key (%s) appears in %s", label, enc, where), rp)
				}
			}
		}
		// credential material without a Digest challenge
		for _, q := range log {
			if q.Authorization == "" {
				continue
			}
			scheme := strings.SplitN(q.Authorization, " ", 2)[0]
			if !jb.b.challenge {
				c.Violation("credentials-without-digest-challenge|"+jb.b.name, fmt.Sprintf("%s: the server never sent a Digest challenge but a request carries 'Authorization: %s …'", label, scheme), rp)
			} else if scheme != "Digest" {
				c.Violation("non-digest-authorization|"+scheme, fmt.Sprintf("%s: a request carries 'Authorization: %s …'", label, scheme), rp)
			}
		}
		if !jb.b.challenge && bytes.Contains(srv.Raw(), []byte(pub)) {
			c.Violation("public-key-sent-without-challenge|"+jb.b.name, fmt.Sprintf("%s: the public key was sent although the server never asked for credentials", label), rp)
		}
		if ji%53 == 0 {
			c.Sample(map[string]any{"case": label, "exit": exit, "requests": logURLs(log), "artefacts_searched": len(artefacts), "needles": len(needles), "stderr": short(bytes.TrimSpace(artefacts["stderr"]), 200)})
		}
	})
	// command lines that fail before any request (usage errors, --help): the key, supplied through the
	// environment or a flag, must not show up in the usage text / error either
	type badCL struct {
		name string
		args []string
	}
	bads := []badCL{
		{"mistyped-flag", []string{"redact", "--atlasProjectID", "p", "--atlasClusterName", "c", "-o", "out.log"}},
		{"non-integer-date", []string{"redact", "--atlasProjectId", "p", "--atlasClusterName", "c", "-o", "out.log", "--atlasLogStartDate", "17e8", "--atlasLogEndDate", "5"}},
		{"extra-positional-arguments", []string{"redact", "a.log", "b.log", "--atlasProjectId", "p"}},
		{"redact-help", []string{"redact", "--help"}},
		{"root-help", []string{"--help"}},
		{"unknown-subcommand", []string{"redacted", "--atlasProjectId", "p"}},
		{"missing-flag-value", []string{"redact", "--atlasProjectId", "p", "--atlasClusterName", "c", "-o", "out.log", "--atlasPrivateKey"}},
	}
	parallelDo(len(bads)*len(c20Keys)*2, func(i int) {
		b, ki, viaFlag := bads[i%len(bads)], (i/len(bads))%len(c20Keys), i/(len(bads)*len(c20Keys)) == 1
		pub, priv := c20Pubs[ki%len(c20Pubs)], c20Keys[ki]
		dir := s.TempDir("c20cl")
		defer os.RemoveAll(dir)
		args := append([]string{}, b.args...)
		env := []string{"HTTPS_PROXY=http://127.0.0.1:9", "https_proxy=http://127.0.0.1:9"}
		if viaFlag {
			if b.name == "missing-flag-value" || b.name == "root-help" || b.name == "unknown-subcommand" {
				return
			}
			args = append(args, "--atlasPublicKey="+pub, "--atlasPrivateKey="+priv)
		} else {
			env = append(env, "ATLAS_PUBLIC_KEY="+pub, "ATLAS_PRIVATE_KEY="+priv)
		}
		r := s.CLI(sut.Run{Args: args, Dir: dir, Env: env, Timeout: time.Minute})
		if r.TimedOut {
			c.Inconclusive("watchdog")
			return
		}
		c.Count("usage_error_runs", 1)
		c.Eval(fmt.Sprintf("usage|%s|%d|%v", b.name, ki, viaFlag))
		for where, data := range map[string][]byte{"stdout": r.Stdout, "stderr": r.Stderr} {
			for needle, enc := range c20Needles(pub, priv) {
				if bytes.Contains(data, []byte(needle)) {
					c.Violation("private-key-visible|"+where+"|usage-error", fmt.Sprintf("command line '%s' (key supplied by %s): the private key (%s) appears in %s", b.name, map[bool]string{true: "flag", false: "environment"}[viaFlag], enc, where),
						map[string]any{"kind": "atlas-key", "case": b.name, "args": args, "private_key": priv, "exit": r.Exit, where: short(data, 600)})
				}
			}
		}
	})

	var bn []string
	for _, b := range c20Behaviours {
		bn = append(bn, b.name)
	}
	c.Set("server_behaviours", bn)
	c.Set("key_supply_modes", c20Supplies)
	raceVerdict(s, c)
	if c.Counter("cli_runs") < 150 || c.Counter("requests_logged") < 300 {
		c.Inconclusive("too few runs / requests")
	}
	c.Assume("/proc/<pid>/cmdline is not an artefact of the run (a flag value is visible there by nature); the digest 'response=' hash is expected")
	c.Assume("the public key may appear in the Digest Authorization header (username) once the server has sent a Digest challenge")
	return c.Finish("key supply {flags, --flag=value form, environment, mixed both ways} × 15 fake-server behaviours (digest success, no challenge, Basic challenge, 401 forever, 403/404/500 with bodies echoing method, URL and all request headers, malformed challenge, reset / 500 on the cluster lookup, 401/500/reset/cut/not-gzip on the host download) × 5 private keys (URL-special, base64-special, quotes and spaces, 64 characters) at CLI and library level; every artefact (bytes received by the endpoint below the HTTP parser incl. CONNECT preambles, stdout, stderr, returned error, every file left in the working and temporary directories) is searched for the key verbatim, percent-encoded, JSON-escaped and base64 / base64url of the key and of public:private; Authorization headers are scanned for credentials sent without a Digest challenge")
}
