package checks

import (
	"bytes"
	"fmt"
	"os"
	"path/filepath"
	"strings"
	"verif/ev"
	"verif/sut"

	"verif/gen"
	"verif/jt"
)

// C03: redaction preserves the JSON shape of every line.
func C03() int {
	s, c, g, ok := setup("C03", "exploration")
	if !ok {
		return c.Finish("build failed")
	}
	defer s.Close()
	vocab := Vocabulary(s, c)
	items := CoreCorpus(g, pickN(c, 1500, 20000))
	nsoup := pickN(c, 4000, 60000)
	for i := 0; i < nsoup; i++ {
		items = append(items, rawItem("soup", g.SoupLine(vocab, i), i))
	}
	for i := 0; i < pickN(c, 500, 5000); i++ {
		items = append(items, rawItem("other", g.OtherLine(), i))
	}
	for i, l := range g.CharsetLines() {
		items = append(items, rawItem("charset", l, i))
	}
	// entries whose envelope members hold another JSON kind than the server writes (attr a string, ...)
	for i, l := range g.EnvelopeKinds() {
		items = append(items, rawItem("envelope-kind", l, i))
	}
	// the explicit small product {key} × {value kind} × {zone}
	pv := gen.ProbeValues()
	nprod := 0
	var prod []Item
	for zi, z := range gen.ProbeZones {
		for _, k := range vocab {
			for vi, v := range pv {
				if !thorough(c) && (zi+vi+len(k))%3 != int(c.Seed%3+3)%3 && zi > 6 {
					continue // quick tier: the 7 zones of DESIGN §4 in full, a third of the extra zones
				}
				prod = append(prod, rawItem("probe:"+z, g.ProbeLine(z, k, v), 0))
				nprod++
			}
		}
	}
	c.Set("product_lines", nprod)
	fsets := []Flags{{}, {N: true, B: true}, {N: true, B: true, I: true, W: true, R: sp("[x]")}, {Enc: true, N: true}}
	if thorough(c) {
		fsets = FlagSets(c.Tier, false, true)
	}
	judge := func(sn Seen) {
		if !basicOutcome(c, sn, true) {
			return
		}
		if bytes.ContainsAny(sn.Res.Out, "\r\n") {
			c.Violation("raw-newline|"+sn.Item.Label(), "output line contains a raw line break", replayOf(sn, nil))
		}
		nodes, mism := 0, 0
		WalkTagged(sn.Item.Tree, sn.Out, false, func(o TObs) {
			nodes++
			if o.Mismatch == "" {
				return
			}
			mism++
			outk := "absent"
			if o.Out != nil {
				outk = o.Out.K.String()
			}
			what := fmt.Sprintf("shape differs at %s: input %s, output %s (%s; flags %s)", jt.PathStr(o.Path), o.In.K, outk, o.Mismatch, sn.Flags)
			if o.Mismatch == "keys" {
				what = fmt.Sprintf("object keys differ at %s: input %v, output %v (flags %s)", jt.PathStr(o.Path), o.In.Keys, o.Out.Keys, sn.Flags)
			} else if o.Mismatch == "length" {
				what = fmt.Sprintf("array length differs at %s: input %d, output %d (flags %s)", jt.PathStr(o.Path), len(o.In.Vals), len(o.Out.Vals), sn.Flags)
			}
			c.Violation("shape-"+o.Mismatch+"-"+o.In.K.String()+"|"+opSig(o.Path), what, replayOf(sn, map[string]any{"at": jt.PathStr(o.Path)}))
		})
		c.Count("nodes_aligned", nodes)
		c.Count("trees_aligned", 1)
		key := ""
		if nodes > 12 {
			key = string(sn.Item.Raw) + sn.Flags.String()
		}
		c.Eval(key)
		if sn.Item.Kind == "soup" || sn.Item.Kind == "charset" {
			c.Sample(map[string]any{"flags": sn.Flags.String(), "input": short(sn.Item.Raw, 500), "output": short(sn.Res.Out, 500)})
		}
	}
	RunCorpus(s, items, fsets, 400, judge)
	pf := fsets
	if !thorough(c) {
		pf = []Flags{{}, {N: true, B: true, I: true, W: true, R: sp("[x]")}}
	}
	WholeRuns = 0 // the product is one synthetic tree per line; the grammar corpus above carries the one-process arrangement
	RunCorpus(s, prod, pf, 1000, judge)
	WholeRuns = -1
	c03FailingRuns(s, c, items)
	c03MixedRuns(s, c, items)
	reportBatchAnomalies(c)
	c.Set("flag_sets", flagNames(fsets))
	raceVerdict(s, c)
	if c.Counter("trees_aligned") < 10000 {
		c.Inconclusive(fmt.Sprintf("only %d trees aligned", c.Counter("trees_aligned")))
	}
	c.Assume("input lines have no duplicate sibling keys (never generated)")
	c.Assume("--redactFieldNames is excluded (renames keys by design)")
	return c.Finish("grammar lines + vocabulary-soup trees placed in every zone + other-component lines + the full product {vocabulary key}×{value kind}×{zone}; each output is parsed by the driver's strict reader and aligned node by node with the input tree (keys and order, array lengths, JSON type of every leaf); non-trivial = more than 12 aligned nodes, distinct by line+flags")
}

// c03FailingRuns: "every emitted line is exactly one valid JSON object" also holds for the lines a
// run emits before it stops with an error (an over-long line after more than one write buffer of
// output, a .gz that ends early): whatever reaches the output must be whole lines, each the image
// of its input line.
func c03FailingRuns(s *sut.SUT, c *ev.Check, items []Item) {
	var good []Item
	size := 0
	for _, it := range items {
		if it.Case != nil && len(it.Raw) < 4000 {
			good = append(good, it)
			size += len(it.Raw)
		}
		if size > 400000 {
			break
		}
	}
	if len(good) < 50 {
		c.Inconclusive("too few lines for the failing-run inputs")
		return
	}
	long := []byte(`{"t":{"$date":"2025-01-01T00:00:00.000+00:00"},"s":"I","c":"COMMAND","id":51803,"ctx":"conn1","msg":"Slow query","attr":{"type":"command","ns":"db.c","command":{"find":"c","filter":{"k":"` + strings.Repeat("L", 70000) + `"},"$db":"db"}}}`)
	type fr struct {
		name  string
		data  []byte
		gz    bool
		n     int  // lines that can have been emitted at most
		stale bool // a complete run whose -o target already holds an older, longer file
	}
	var runs []fr
	join := func(its []Item, extraAt int) []byte {
		var b bytes.Buffer
		for i, it := range its {
			if i == extraAt {
				b.Write(long)
				b.WriteByte('\n')
			}
			b.Write(it.Raw)
			b.WriteByte('\n')
		}
		if extraAt >= len(its) {
			b.Write(long)
			b.WriteByte('\n')
		}
		return b.Bytes()
	}
	for _, at := range []int{1, len(good) / 3, len(good) - 1, len(good)} {
		runs = append(runs, fr{fmt.Sprintf("over-long line before line %d of %d", at, len(good)), join(good, at), false, at, false})
	}
	whole := gz(join(good, -1))
	for _, cut := range []int{len(whole) / 4, len(whole) / 2, 3 * len(whole) / 4, len(whole) - 9, len(whole) - 1} {
		runs = append(runs, fr{fmt.Sprintf("gzip input cut at byte %d of %d", cut, len(whole)), whole[:cut], true, len(good), false})
	}
	runs = append(runs, fr{name: "complete run onto an existing longer output file", data: join(good[:40], -1), n: 40, stale: true})
	fsets := []Flags{{}, {N: true, B: true, W: true}}
	parallelDo(len(runs)*3*len(fsets), func(j int) {
		r := runs[j%len(runs)]
		ch := (j / len(runs)) % 3
		f := fsets[j/(3*len(runs))]
		if r.gz && ch == 2 {
			return // stdin is never decompressed
		}
		dir := s.TempDir("c03f")
		defer os.RemoveAll(dir)
		in := filepath.Join(dir, "in.log")
		if r.gz {
			in += ".gz"
		}
		os.WriteFile(in, r.data, 0o644)
		outp := filepath.Join(dir, "out.log")
		if r.stale {
			if ch != 1 {
				return
			}
			os.WriteFile(outp, bytes.Repeat([]byte(`{"stale":"older output"}`+"\n"), 20000), 0o644)
		}
		args := append([]string{"redact"}, f.Args(j, "")...)
		run := sut.Run{Dir: dir}
		switch ch {
		case 0:
			args = append(args, in)
		case 1:
			args = append(args, in, "-o", outp)
		case 2:
			run.Stdin = r.data
		}
		run.Args = args
		res := s.CLI(run)
		out := res.Stdout
		if ch == 1 {
			out, _ = os.ReadFile(outp)
		}
		if res.TimedOut {
			c.Inconclusive("watchdog on a failing run")
			return
		}
		c.Count("failing_runs", 1)
		c.Eval(fmt.Sprintf("failing|%s|%d|%s", r.name, ch, f))
		rp := map[string]any{"kind": "failing-run", "what": r.name, "channel": []string{"file>stdout", "file>-o", "stdin>stdout"}[ch], "flags": f.Args(j, ""), "exit": res.Exit, "output_tail": short(out[max(0, len(out)-300):], 300)}
		if len(out) > 0 && out[len(out)-1] != '\n' {
			c.Violation("torn-last-line|failing-run", fmt.Sprintf("%s (%s, flags %s, exit %d): the output ends in a partial line: …%s", r.name, rp["channel"], f, res.Exit, short(out[max(0, len(out)-120):], 120)), rp)
			return
		}
		ls := splitLines(out)
		if len(ls) > r.n {
			c.Violation("too-many-lines|failing-run", fmt.Sprintf("%s: %d output lines although at most %d input lines precede the fault", r.name, len(ls), r.n), rp)
			return
		}
		for i, l := range ls {
			t, err := jt.ParseObject(l)
			if err != nil {
				c.Violation("output-not-json|failing-run", fmt.Sprintf("%s (%s, flags %s): output line %d is not one JSON object: %v: %s", r.name, rp["channel"], f, i, err, short(l, 120)), rp)
				return
			}
			bad := ""
			WalkTagged(good[i].Tree, t, false, func(o TObs) {
				if o.Mismatch != "" && bad == "" {
					bad = fmt.Sprintf("%s at %s", o.Mismatch, jt.PathStr(o.Path))
				}
			})
			if bad != "" {
				c.Violation("shape|failing-run", fmt.Sprintf("%s: output line %d does not have the shape of input line %d (%s)", r.name, i, i, bad), rp)
				return
			}
			c.Count("lines_emitted_before_a_failure_aligned", 1)
		}
	})
}

// c03MixedRuns: "every emitted line is exactly one valid JSON object" in a log whose object lines
// are interleaved with lines that are valid JSON but NOT objects (arrays, numbers, strings, null,
// booleans — with and without the text "attr"), JSON-looking text and blanks: each emitted line
// must be an object with the shape of the next object line of the input, in order.
func c03MixedRuns(s *sut.SUT, c *ev.Check, items []Item) {
	var good []Item
	for _, it := range items {
		if len(it.Raw) < 3000 {
			good = append(good, it)
		}
		if len(good) >= 120 {
			break
		}
	}
	if len(good) < 40 {
		c.Inconclusive("too few lines for the mixed runs")
		return
	}
	strays := []string{`[1,2,3]`, `42`, `null`, `"text"`, `true`, `false`, `-0.5e3`, `[]`, `[{"a":1}]`, `"{\"a\":1}"`, `[{"attr":{"command":{"find":"c","filter":{"a":"b"}}}}]`, `"attr"`, ``, `   `, `{not json at all}`, `{"msg":"unterminated}`, `0`, `""`, `[[[]]]`, `1e400`, `{"a":1}}`, `{"a":1} {"b":2}`}
	fsets := []Flags{{}, {N: true, B: true, I: true}, {W: true, R: sp("[x]")}}
	parallelDo(len(fsets)*3*2, func(j int) {
		f := fsets[j%len(fsets)]
		ch := (j / len(fsets)) % 3
		lead := j/(len(fsets)*3) == 1 // the file starts with a stray line / with an object line
		var in bytes.Buffer
		var objs []Item
		k := 0
		for i, it := range good {
			if lead || i > 0 {
				for n := 0; n <= i%3; n++ {
					in.WriteString(strays[k%len(strays)])
					in.WriteByte('\n')
					k++
				}
			}
			in.Write(it.Raw)
			in.WriteByte('\n')
			objs = append(objs, it)
		}
		in.WriteString(strays[k%len(strays)]) // last line: a stray one without final newline
		dir := s.TempDir("c03m")
		defer os.RemoveAll(dir)
		inp := filepath.Join(dir, "in.log")
		os.WriteFile(inp, in.Bytes(), 0o644)
		outp := filepath.Join(dir, "out.log")
		args := append([]string{"redact"}, f.Args(j, "")...)
		run := sut.Run{Dir: dir}
		switch ch {
		case 0:
			args = append(args, inp)
		case 1:
			args = append(args, inp, "-o", outp)
		case 2:
			run.Stdin = in.Bytes()
		}
		run.Args = args
		res := s.CLI(run)
		if res.TimedOut {
			c.Inconclusive("watchdog on a mixed run")
			return
		}
		out := res.Stdout
		if ch == 1 {
			out, _ = os.ReadFile(outp)
		}
		c.Count("mixed_runs", 1)
		c.Eval(fmt.Sprintf("mixed|%d|%s|%v", ch, f, lead))
		rp := map[string]any{"kind": "mixed-run", "channel": []string{"file>stdout", "file>-o", "stdin>stdout"}[ch], "flags": f.Args(j, ""), "exit": res.Exit, "input_head": short(in.Bytes(), 1500)}
		if res.Exit != 0 || sut.Crashed(res.Stderr) {
			c.Violation("run-failed|mixed-run", fmt.Sprintf("a log mixing object lines with other JSON values and text: exit %d: %s", res.Exit, short(res.Stderr, 300)), rp)
			return
		}
		ls := splitLines(out)
		oi := 0
		for i, l := range ls {
			t, err := jt.ParseObject(l)
			if err != nil {
				c.Violation("output-not-an-object|mixed-run", fmt.Sprintf("output line %d of a mixed log is not one JSON object (%v): %s (%s, flags %s)", i, err, short(l, 160), rp["channel"], f), rp)
				return
			}
			if oi >= len(objs) {
				c.Violation("extra-line|mixed-run", fmt.Sprintf("output line %d has no object line of the input left to correspond to: %s", i, short(l, 160)), rp)
				return
			}
			bad := ""
			WalkTagged(objs[oi].Tree, t, false, func(o TObs) {
				if o.Mismatch != "" && bad == "" {
					bad = fmt.Sprintf("%s at %s", o.Mismatch, jt.PathStr(o.Path))
				}
			})
			if bad != "" {
				c.Violation("shape|mixed-run", fmt.Sprintf("output line %d does not have the shape of object line %d of the input (%s): %s", i, oi, bad, short(l, 160)), rp)
				return
			}
			oi++
			c.Count("mixed_run_lines_aligned", 1)
		}
		if oi != len(objs) {
			c.Violation("missing-line|mixed-run", fmt.Sprintf("%d object lines in, %d lines out (%s, flags %s)", len(objs), oi, rp["channel"], f), rp)
		}
	})
}
