package checks

import (
	"bytes"
	"fmt"

	"verif/gen"
	"verif/jt"
)

// C03: redaction preserves the JSON shape of every line.
func C03() int {
	s, c, g, ok := setup("C03", "exploration")
	if !ok {
		return c.Finish("build failed")
	}
	defer s.Close()
	vocab := Vocabulary(s, c)
	items := CoreCorpus(g, pickN(c, 1500, 20000))
	nsoup := pickN(c, 4000, 60000)
	for i := 0; i < nsoup; i++ {
		items = append(items, rawItem("soup", g.SoupLine(vocab, i), i))
	}
	for i := 0; i < pickN(c, 500, 5000); i++ {
		items = append(items, rawItem("other", g.OtherLine(), i))
	}
	for i, l := range g.CharsetLines() {
		items = append(items, rawItem("charset", l, i))
	}
	// the explicit small product {key} × {value kind} × {zone}
	pv := gen.ProbeValues()
	nprod := 0
	var prod []Item
	for zi, z := range gen.ProbeZones {
		for _, k := range vocab {
			for vi, v := range pv {
				if !thorough(c) && (zi+vi+len(k))%3 != int(c.Seed%3+3)%3 && zi > 6 {
					continue // quick tier: the 7 zones of DESIGN §4 in full, a third of the extra zones
				}
				prod = append(prod, rawItem("probe:"+z, g.ProbeLine(z, k, v), 0))
				nprod++
			}
		}
	}
	c.Set("product_lines", nprod)
	fsets := []Flags{{}, {N: true, B: true}, {N: true, B: true, I: true, W: true, R: sp("[x]")}, {Enc: true, N: true}}
	if thorough(c) {
		fsets = FlagSets(c.Tier, false, true)
	}
	judge := func(sn Seen) {
		if !basicOutcome(c, sn, true) {
			return
		}
		if bytes.ContainsAny(sn.Res.Out, "\r\n") {
			c.Violation("raw-newline|"+sn.Item.Label(), "output line contains a raw line break", replayOf(sn, nil))
		}
		nodes, mism := 0, 0
		WalkTagged(sn.Item.Tree, sn.Out, false, func(o TObs) {
			nodes++
			if o.Mismatch == "" {
				return
			}
			mism++
			outk := "absent"
			if o.Out != nil {
				outk = o.Out.K.String()
			}
			what := fmt.Sprintf("shape differs at %s: input %s, output %s (%s; flags %s)", jt.PathStr(o.Path), o.In.K, outk, o.Mismatch, sn.Flags)
			if o.Mismatch == "keys" {
				what = fmt.Sprintf("object keys differ at %s: input %v, output %v (flags %s)", jt.PathStr(o.Path), o.In.Keys, o.Out.Keys, sn.Flags)
			} else if o.Mismatch == "length" {
				what = fmt.Sprintf("array length differs at %s: input %d, output %d (flags %s)", jt.PathStr(o.Path), len(o.In.Vals), len(o.Out.Vals), sn.Flags)
			}
			c.Violation("shape-"+o.Mismatch+"-"+o.In.K.String()+"|"+opSig(o.Path), what, replayOf(sn, map[string]any{"at": jt.PathStr(o.Path)}))
		})
		c.Count("nodes_aligned", nodes)
		c.Count("trees_aligned", 1)
		key := ""
		if nodes > 12 {
			key = string(sn.Item.Raw) + sn.Flags.String()
		}
		c.Eval(key)
		if sn.Item.Kind == "soup" || sn.Item.Kind == "charset" {
			c.Sample(map[string]any{"flags": sn.Flags.String(), "input": short(sn.Item.Raw, 500), "output": short(sn.Res.Out, 500)})
		}
	}
	RunCorpus(s, items, fsets, 400, judge)
	pf := fsets
	if !thorough(c) {
		pf = []Flags{{}, {N: true, B: true, I: true, W: true, R: sp("[x]")}}
	}
	WholeRuns = 0 // the product is one synthetic tree per line; the grammar corpus above carries the one-process arrangement
	RunCorpus(s, prod, pf, 1000, judge)
	WholeRuns = -1
	reportBatchAnomalies(c)
	c.Set("flag_sets", flagNames(fsets))
	c.Set("race_reports", s.RaceReports())
	if c.Counter("trees_aligned") < 10000 {
		c.Inconclusive(fmt.Sprintf("only %d trees aligned", c.Counter("trees_aligned")))
	}
	c.Assume("input lines have no duplicate sibling keys (never generated)")
	c.Assume("--redactFieldNames is excluded (renames keys by design)")
	return c.Finish("grammar lines + vocabulary-soup trees placed in every zone + other-component lines + the full product {vocabulary key}×{value kind}×{zone}; each output is parsed by the driver's strict reader and aligned node by node with the input tree (keys and order, array lengths, JSON type of every leaf); non-trivial = more than 12 aligned nodes, distinct by line+flags")
}
