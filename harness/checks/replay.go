package checks

import (
	"encoding/json"
	"fmt"
	"os"
	"path/filepath"

	"verif/sut"
)

// Replay re-runs a recorded violation case against the current tree and
// prints what the tool produces now.
func Replay(path string) int {
	b, err := os.ReadFile(path)
	if err != nil {
		fmt.Println(err)
		return 2
	}
	var m map[string]any
	if err := json.Unmarshal(b, &m); err != nil {
		fmt.Println(err)
		return 2
	}
	fmt.Printf("property=%v sig=%v\n%v\n", m["property"], m["sig"], m["what"])
	if m["kind"] != "redact-line" {
		fmt.Println("(this replay record is descriptive: re-run the check with the recorded seed and tier)")
		return 0
	}
	s, err := sut.New()
	if err != nil {
		fmt.Println(err)
		return 2
	}
	defer s.Close()
	dir := s.TempDir("replay")
	in := filepath.Join(dir, "in.log")
	input, _ := m["input"].(string)
	os.WriteFile(in, []byte(input+"\n"), 0o644)
	key := filepath.Join(dir, "k.key")
	os.WriteFile(key, []byte(TestKeyB64), 0o600)
	args := []string{"redact"}
	enc := false
	if fl, ok := m["flags"].([]any); ok {
		for _, a := range fl {
			as, _ := a.(string)
			if as == "KEYFILE" {
				as = key
			}
			if as == "-y" || as == "--encrypt" {
				enc = true
			}
			args = append(args, as)
		}
	}
	args = append(args, in)
	outp := filepath.Join(dir, "out.log")
	if enc {
		args = append(args, "-o", outp)
	}
	r := s.CLI(sut.Run{Args: args, Dir: dir})
	out := r.Stdout
	if enc {
		out, _ = os.ReadFile(outp)
	}
	fmt.Printf("input : %s\nrecorded output: %v\ncurrent  output: %sexit=%d stderr=%s\n", input, m["output"], out, r.Exit, short(r.Stderr, 500))
	return 0
}
