package checks

import (
	"fmt"
	"strings"
	"sync"

	"verif/ev"
	"verif/jt"
)

// leafStats collects what the monitors actually observed.
type leafStats struct {
	mu    sync.Mutex
	slots map[string]int
	class map[string]int
	ops   map[string]int
	zones map[string]int
}

func newLeafStats() *leafStats {
	return &leafStats{slots: map[string]int{}, class: map[string]int{}, ops: map[string]int{}, zones: map[string]int{}}
}

func (ls *leafStats) add(sn Seen, o TObs) {
	ls.mu.Lock()
	ls.slots[o.Tag.Slot]++
	ls.class[o.Tag.Class]++
	for _, p := range o.Path {
		if strings.HasPrefix(p, "$") {
			ls.ops[p]++
		}
	}
	if len(o.Path) > 3 && sn.Item.Case != nil {
		ls.zones[o.Path[1]+"/"+o.Path[2]+"/"+sn.Item.Case.Comp]++
	}
	ls.mu.Unlock()
}

func (ls *leafStats) put(c *ev.Check) {
	c.Set("leaves_by_class", ls.class)
	c.Set("leaves_by_slot", ls.slots)
	c.Set("operators_seen_above_a_literal", len(ls.ops))
	c.Set("carrier_zone_component_cells", ls.zones)
}

// C01: sensitive literals never survive (full-redaction mode).
func C01() int {
	s, c, g, ok := setup("C01", "exploration")
	if !ok {
		return c.Finish("build failed")
	}
	defer s.Close()
	n := pickN(c, 2400, 30000)
	items := CoreCorpus(g, n)
	fsets := FlagSets(c.Tier, true, true)
	ls := newLeafStats()
	RunCorpus(s, items, fsets, 200, func(sn Seen) {
		if !basicOutcome(c, sn, true) {
			return
		}
		c01Judge(c, sn, ls)
	})
	// in-process channel on a subset: output must equal the CLI's byte for byte
	agentCrossCheck(s, c, items, fsets)
	optionHistory(s, c, items)
	reportBatchAnomalies(c)
	ls.put(c)
	c.Set("flag_sets", flagNames(fsets))
	raceVerdict(s, c)
	c.Set("sut_statement_coverage_percent", s.CoverFuncs())
	if c.Counter("sens_leaves_searched") < 20000 {
		c.Inconclusive(fmt.Sprintf("only %d sensitive leaves searched", c.Counter("sens_leaves_searched")))
	}
	c.Assume("sensitive strings never start with '$' (those are field-path references, outside the claim)")
	c.Assume("literals are planted only in the value positions listed in DESIGN Appendix A")
	return c.Finish("grammar-generated command lines cycling verb×carrier×component, each run under every flag set through the real CLI; a case is distinct by its input line+flag set and non-trivial when it holds at least one planted sensitive leaf")
}

func flagNames(fs []Flags) []string {
	var o []string
	for _, f := range fs {
		o = append(o, f.String())
	}
	return o
}

func c01Judge(c *ev.Check, sn Seen, ls *leafStats) {
	h := NewHaystack(sn.Res.Out, sn.Out)
	nsens := 0
	WalkTagged(sn.Item.Tree, sn.Out, sn.Flags.F != "", func(o TObs) {
		if o.Tag == nil || !o.Own {
			return
		}
		switch o.Tag.Role {
		case jt.Sens:
			nsens++
			if ls != nil {
				ls.add(sn, o)
			}
			leak, kind := false, ""
			switch o.In.K {
			case jt.Str:
				if h.HasString(o.In.S) {
					leak, kind = true, "leak-"+o.Tag.Class
				}
			case jt.Num:
				if sn.Flags.N && h.HasNumber(o.In.S) {
					leak, kind = true, "leak-num"
				}
			case jt.Bool:
				if sn.Flags.B && o.In.B && o.Mismatch == "" && o.Out.K == jt.Bool && o.Out.B {
					leak, kind = true, "leak-bool"
				}
			}
			if leak {
				c.Violation(kind+"|"+opSig(o.Path), fmt.Sprintf("planted %s literal %q at %s survives in the output (flags %s)", o.Tag.Class, trunc(o.In.S, 60), jt.PathStr(o.Path), sn.Flags),
					replayOf(sn, map[string]any{"leaf": jt.PathStr(o.Path), "secret": o.In.S}))
			}
		case jt.Remote:
			if sn.Flags.I && h.HasString(o.In.S) {
				c.Violation("leak-remote|"+opSig(o.Path), fmt.Sprintf("attr.remote %q survives under --redactIPs", o.In.S), replayOf(sn, nil))
			}
			c.Count("remote_checked", 1)
		}
	})
	c.Count("sens_leaves_searched", nsens)
	key := ""
	if nsens > 0 {
		key = string(sn.Item.Raw) + sn.Flags.String()
	}
	c.Eval(key)
	if sn.Variant == 0 {
		c.Sample(map[string]any{"flags": sn.Flags.String(), "input": short(sn.Item.Raw, 700), "output": short(sn.Res.Out, 700)})
	}
}

func trunc(s string, n int) string {
	if len(s) > n {
		return s[:n] + "…"
	}
	return s
}
