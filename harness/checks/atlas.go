package checks

import (
	"bytes"
	"fmt"
	"os"
	"path/filepath"
	"sort"
	"strings"

	"verif/atlasfake"
	"verif/gen"
	"verif/jt"
	"verif/sut"
)

// Shared machinery of the Atlas-mode monitors (C16, C17, C18, C20).

const atlasPub, atlasPriv = "pubKEYzq7", "pr1v-KEY_zq7-9f3c2b7e"

// atlasEnv points the unmodified CLI at the fake endpoint: the hard-coded
// https://cloud.mongodb.com is reached through HTTPS_PROXY, the throw-away CA
// through SSL_CERT_FILE.
func atlasEnv(srv *atlasfake.Server, dir string) []string {
	ca := filepath.Join(dir, "verif-ca.pem")
	srv.WriteCA(ca)
	return []string{"HTTPS_PROXY=" + srv.ProxyURL(), "https_proxy=" + srv.ProxyURL(), "HTTP_PROXY=" + srv.ProxyURL(), "http_proxy=" + srv.ProxyURL(), "NO_PROXY=", "no_proxy=", "SSL_CERT_FILE=" + ca, "SSL_CERT_DIR=/nonexistent"}
}

// tmpLeft lists the files left under the CLI's private TMPDIR (dir/tmp), at any depth.
func tmpLeft(dir string) []string {
	root := filepath.Join(dir, "tmp")
	var names []string
	filepath.WalkDir(root, func(p string, d os.DirEntry, err error) error {
		// files only, at any depth: an (empty) private directory is not a downloaded log file
		if err == nil && p != root && !d.IsDir() {
			rel, _ := filepath.Rel(root, p)
			names = append(names, rel)
		}
		return nil
	})
	sort.Strings(names)
	return names
}

// atlasPayload builds the log of one host: n lines of mixed classes, every
// object line marked with the host index, gzip-compressed in m members.
func atlasPayload(g *gen.Gen, host, n, members int) (raw []byte, gzBytes []byte) {
	var lines [][]byte
	for j := 0; j < n; j++ {
		switch j % 7 {
		case 3:
			lines = append(lines, []byte("not json host "+fmt.Sprint(host)))
		case 5:
			lines = append(lines, []byte(""))
		case 6:
			o := g.OtherLine()
			o.Set("ctx", jt.StrN(fmt.Sprintf("vqH%dL%dm", host, j)))
			lines = append(lines, o.Bytes(jt.Plain))
		default:
			cs := g.Case(gen.CaseOpts{})
			cs.Line.Set("ctx", jt.StrN(fmt.Sprintf("vqH%dL%dm", host, j)))
			lines = append(lines, cs.Line.Bytes(jt.Plain))
		}
	}
	raw = bytes.Join(lines, []byte("\n"))
	if n > 0 {
		raw = append(raw, '\n')
	}
	if members <= 1 || len(raw) == 0 {
		return raw, gz(raw)
	}
	var parts [][]byte
	step := len(raw)/members + 1
	for lo := 0; lo < len(raw); lo += step {
		hi := lo + step
		if hi > len(raw) {
			hi = len(raw)
		}
		parts = append(parts, raw[lo:hi])
	}
	return raw, gz(parts...)
}

// stripPort mirrors what "ports stripped" means for a host[:port] of a
// standard connection string (IPv6 literals in brackets).
func stripPort(h string) string {
	if strings.HasPrefix(h, "[") {
		if i := strings.Index(h, "]"); i > 0 {
			return h[1:i]
		}
	}
	if i := strings.LastIndex(h, ":"); i >= 0 && !strings.Contains(h[:i], ":") {
		return h[:i]
	}
	return h
}

// expectRedaction runs the plain-file channel of the CLI on the RAW (uncompressed) log of a
// host under flags. "<out>.<i> is the redaction of host i's log" is thereby tied to C06 without
// sharing the gzip path with the run under test (a defect in gzip handling would otherwise
// cancel out on both sides).
func expectRedaction(s *sut.SUT, flags []string, rawPayload []byte) ([]byte, bool) {
	dir := s.TempDir("exp")
	defer os.RemoveAll(dir)
	p := filepath.Join(dir, "payload.log")
	os.WriteFile(p, rawPayload, 0o644)
	outp := filepath.Join(dir, "o.log")
	r := s.CLI(sut.Run{Args: append(append([]string{"redact"}, flags...), p, "-o", outp), Dir: dir})
	b, _ := os.ReadFile(outp)
	return b, r.Exit == 0
}

// reqURL renders a recorded request for messages.
func reqURL(q atlasfake.Req) string {
	u := q.Method + " " + q.Path
	if q.RawQuery != "" {
		u += "?" + q.RawQuery
	}
	if q.Authorization != "" {
		u += " [Authorization: " + strings.SplitN(q.Authorization, " ", 2)[0] + "]"
	}
	return u
}

func logURLs(log []atlasfake.Req) []string {
	var o []string
	for _, q := range log {
		o = append(o, reqURL(q))
	}
	return o
}

// checkRequestLog compares a request log with the expected exchange:
// for every expected URL in order, at most one unauthenticated attempt
// followed by exactly one Digest-authenticated request; nothing else.
// Returns "" when it matches.
func checkRequestLog(log []atlasfake.Req, expected []string) string {
	if len(expected) == 0 {
		return ""
	}
	// 1. the cluster description comes first (the hosts are derived from it)
	i := 0
	lookup := expected[0]
	if i < len(log) && log[i].Authorization == "" && fullPath(log[i]) == lookup {
		i++ // the challenge round
	}
	if i >= len(log) {
		return fmt.Sprintf("the cluster description (%s) was never requested with digest authorization", lookup)
	}
	if fullPath(log[i]) != lookup {
		return fmt.Sprintf("expected the first request to be GET %s but saw %s", lookup, reqURL(log[i]))
	}
	if !strings.HasPrefix(log[i].Authorization, "Digest ") {
		return fmt.Sprintf("request %s repeated without digest authorization: %s", lookup, reqURL(log[i]))
	}
	if log[i].Method != "GET" {
		return fmt.Sprintf("request %s sent with method %s", lookup, log[i].Method)
	}
	i++
	// 2. then, per host entry of the connection string, exactly one authenticated download, preceded by
	// at most one unauthenticated attempt of the same URL. The statement fixes WHICH downloads happen
	// and which file each goes to, not the order in which the requests leave (downloads may overlap);
	// the order actually seen is reported as an observation.
	want := map[string]int{}
	for _, u := range expected[1:] {
		want[u]++
	}
	auth, unauth := map[string]int{}, map[string]int{}
	for _, q := range log[i:] {
		u := fullPath(q)
		if want[u] == 0 {
			return fmt.Sprintf("unexpected request: %s (expected downloads: %v)", reqURL(q), expected[1:])
		}
		if q.Method != "GET" {
			return fmt.Sprintf("request %s sent with method %s", u, q.Method)
		}
		switch {
		case q.Authorization == "":
			unauth[u]++
			if unauth[u] > want[u] || unauth[u] > auth[u]+1 {
				return fmt.Sprintf("more than one unauthenticated attempt per download of %s", u)
			}
		case strings.HasPrefix(q.Authorization, "Digest "):
			auth[u]++
			if auth[u] > want[u] {
				return fmt.Sprintf("%d unexpected extra request(s), first: %s", auth[u]-want[u], reqURL(q))
			}
		default:
			return fmt.Sprintf("request %s sent with a non-digest Authorization header", u)
		}
	}
	for _, u := range expected[1:] {
		if auth[u] < want[u] {
			return fmt.Sprintf("expected %d authenticated download(s) of %s, saw %d", want[u], u, auth[u])
		}
	}
	return ""
}

// requestsInHostOrder reports whether the authenticated per-host downloads left in the order of the
// connection string (an observation, not a demand).
func requestsInHostOrder(log []atlasfake.Req, expected []string) bool {
	var seen []string
	for _, q := range log {
		if strings.HasPrefix(q.Authorization, "Digest ") {
			seen = append(seen, fullPath(q))
		}
	}
	if len(seen) != len(expected) {
		return false
	}
	for i := range seen {
		if seen[i] != expected[i] {
			return false
		}
	}
	return true
}

func fullPath(q atlasfake.Req) string {
	if q.RawQuery != "" {
		return q.Path + "?" + q.RawQuery
	}
	return q.Path
}
