package checks

import (
	"bytes"
	"fmt"
	"os"
	"path/filepath"
	"sort"
	"strings"

	"verif/atlasfake"
	"verif/gen"
	"verif/jt"
	"verif/sut"
)

// Shared machinery of the Atlas-mode monitors (C16, C17, C18, C20).

const atlasPub, atlasPriv = "pubKEYzq7", "pr1v-KEY_zq7-9f3c2b7e"

// atlasEnv points the unmodified CLI at the fake endpoint: the hard-coded
// https://cloud.mongodb.com is reached through HTTPS_PROXY, the throw-away CA
// through SSL_CERT_FILE.
func atlasEnv(srv *atlasfake.Server, dir string) []string {
	ca := filepath.Join(dir, "verif-ca.pem")
	srv.WriteCA(ca)
	return []string{"HTTPS_PROXY=" + srv.ProxyURL(), "https_proxy=" + srv.ProxyURL(), "HTTP_PROXY=" + srv.ProxyURL(), "http_proxy=" + srv.ProxyURL(), "NO_PROXY=", "no_proxy=", "SSL_CERT_FILE=" + ca, "SSL_CERT_DIR=/nonexistent"}
}

// tmpLeft lists what is left under the CLI's private TMPDIR (dir/tmp).
func tmpLeft(dir string) []string {
	root := filepath.Join(dir, "tmp")
	var names []string
	filepath.WalkDir(root, func(p string, d os.DirEntry, err error) error {
		if err == nil && p != root {
			rel, _ := filepath.Rel(root, p)
			names = append(names, rel)
		}
		return nil
	})
	sort.Strings(names)
	return names
}

// atlasPayload builds the log of one host: n lines of mixed classes, every
// object line marked with the host index, gzip-compressed in m members.
func atlasPayload(g *gen.Gen, host, n, members int) (raw []byte, gzBytes []byte) {
	var lines [][]byte
	for j := 0; j < n; j++ {
		switch j % 7 {
		case 3:
			lines = append(lines, []byte("not json host "+fmt.Sprint(host)))
		case 5:
			lines = append(lines, []byte(""))
		case 6:
			o := g.OtherLine()
			o.Set("ctx", jt.StrN(fmt.Sprintf("vqH%dL%dm", host, j)))
			lines = append(lines, o.Bytes(jt.Plain))
		default:
			cs := g.Case(gen.CaseOpts{})
			cs.Line.Set("ctx", jt.StrN(fmt.Sprintf("vqH%dL%dm", host, j)))
			lines = append(lines, cs.Line.Bytes(jt.Plain))
		}
	}
	raw = bytes.Join(lines, []byte("\n"))
	if n > 0 {
		raw = append(raw, '\n')
	}
	if members <= 1 || len(raw) == 0 {
		return raw, gz(raw)
	}
	var parts [][]byte
	step := len(raw)/members + 1
	for lo := 0; lo < len(raw); lo += step {
		hi := lo + step
		if hi > len(raw) {
			hi = len(raw)
		}
		parts = append(parts, raw[lo:hi])
	}
	return raw, gz(parts...)
}

// stripPort mirrors what "ports stripped" means for a host[:port] of a
// standard connection string (IPv6 literals in brackets).
func stripPort(h string) string {
	if strings.HasPrefix(h, "[") {
		if i := strings.Index(h, "]"); i > 0 {
			return h[1:i]
		}
	}
	if i := strings.LastIndex(h, ":"); i >= 0 && !strings.Contains(h[:i], ":") {
		return h[:i]
	}
	return h
}

// expectRedaction runs the plain-file channel of the CLI on the RAW (uncompressed) log of a
// host under flags. "<out>.<i> is the redaction of host i's log" is thereby tied to C06 without
// sharing the gzip path with the run under test (a defect in gzip handling would otherwise
// cancel out on both sides).
func expectRedaction(s *sut.SUT, flags []string, rawPayload []byte) ([]byte, bool) {
	dir := s.TempDir("exp")
	defer os.RemoveAll(dir)
	p := filepath.Join(dir, "payload.log")
	os.WriteFile(p, rawPayload, 0o644)
	outp := filepath.Join(dir, "o.log")
	r := s.CLI(sut.Run{Args: append(append([]string{"redact"}, flags...), p, "-o", outp), Dir: dir})
	b, _ := os.ReadFile(outp)
	return b, r.Exit == 0
}

// reqURL renders a recorded request for messages.
func reqURL(q atlasfake.Req) string {
	u := q.Method + " " + q.Path
	if q.RawQuery != "" {
		u += "?" + q.RawQuery
	}
	if q.Authorization != "" {
		u += " [Authorization: " + strings.SplitN(q.Authorization, " ", 2)[0] + "]"
	}
	return u
}

func logURLs(log []atlasfake.Req) []string {
	var o []string
	for _, q := range log {
		o = append(o, reqURL(q))
	}
	return o
}

// checkRequestLog compares a request log with the expected exchange:
// for every expected URL in order, at most one unauthenticated attempt
// followed by exactly one Digest-authenticated request; nothing else.
// Returns "" when it matches.
func checkRequestLog(log []atlasfake.Req, expected []string) string {
	i := 0
	for ei, want := range expected {
		if i < len(log) && log[i].Authorization == "" && fullPath(log[i]) == want {
			i++ // the challenge round
		}
		if i >= len(log) {
			return fmt.Sprintf("request %d of %d expected (%s) was never sent authenticated", ei+1, len(expected), want)
		}
		if fullPath(log[i]) != want {
			return fmt.Sprintf("expected request %d to be GET %s but saw %s", ei+1, want, reqURL(log[i]))
		}
		if !strings.HasPrefix(log[i].Authorization, "Digest ") {
			return fmt.Sprintf("request %s repeated without digest authorization: %s", want, reqURL(log[i]))
		}
		if log[i].Method != "GET" {
			return fmt.Sprintf("request %s sent with method %s", want, log[i].Method)
		}
		i++
	}
	if i < len(log) {
		return fmt.Sprintf("%d unexpected extra request(s), first: %s", len(log)-i, reqURL(log[i]))
	}
	return ""
}

func fullPath(q atlasfake.Req) string {
	if q.RawQuery != "" {
		return q.Path + "?" + q.RawQuery
	}
	return q.Path
}
