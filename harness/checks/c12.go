package checks

import (
	"fmt"
	"regexp"
	"strings"
	"sync"

	"verif/gen"
	"verif/jt"
)

// C12: namespace pseudonymisation is complete, consistent and confined.
//
// Multi-line logs mixing 2–6 namespaces are run as ONE process each, with and
// without --redactNamespaces. Oracles: whole-line leak search for the planted
// names, positional check at every namespace-bearing position (mask written
// from the statement: generator tags NsDB/NsColl/NsFull), a name↔pseudonym
// bimap over the whole log, and a tree diff against the flag-off run.

var c12Common = map[string]bool{"admin": true, "system": true, "views": true, "buckets": true, "$cmd": true, "oplog": true, "rs": true, "a": true, "b": true, "c": true, "archive": true}

func C12() int {
	s, c, g, ok := setup("C12", "exploration")
	if !ok {
		return c.Finish("build failed")
	}
	defer s.Close()
	nlogs := pickN(c, 320, 4000)
	perLog := 18
	type logT struct {
		cases []*gen.Case
		items []Item
	}
	logs := make([]logT, nlogs)
	for i := range logs {
		cs, _ := g.NsLog(perLog)
		logs[i].cases = cs
		for j, x := range cs {
			logs[i].items = append(logs[i].items, mkItem(x, i+j))
		}
		if i%8 == 4 {
			// lines of the COMMAND / QUERY / WRITE components that carry attr.ns but NO command document
			// (write conflicts, cursor and index-build reports): "attr.ns on every line that has one"
			o := g.OtherLine()
			o.Set("c", jt.StrN([]string{"WRITE", "COMMAND", "QUERY"}[i/8%3]))
			o.Set("msg", jt.StrN([]string{"Caught WriteConflictException", "Slow query", "Cursor timed out", "Index build: starting"}[i/8%4]))
			o.Get("attr").Set("ns", jt.StrN(cs[0].DB+"."+cs[0].Coll).With(&jt.Tag{Role: jt.NsFull}))
			logs[i].items = append(logs[i].items, rawItem("operation-line-without-command", o, i))
		}
		if i%8 == 0 { // other-component lines with attr.ns
			o := g.OtherLine()
			o.Get("attr").Set("ns", jt.StrN(cs[0].DB+"."+cs[0].Coll).With(&jt.Tag{Role: jt.NsFull}))
			logs[i].items = append(logs[i].items, rawItem("other", o, i))
		}
	}
	fpairs := [][2]Flags{{{W: true}, {}}, {{W: true, N: true, B: true, I: true, R: sp("[x]")}, {N: true, B: true, I: true, R: sp("[x]")}}, {{W: true, Enc: true}, {Enc: true}}, {{W: true, F: "shop"}, {F: "shop"}},
		{{W: true, R: sp("anon")}, {R: sp("anon")}}, {{W: true, R: sp(""), N: true}, {R: sp(""), N: true}},
		// selective mode leaves most values alone; namespaces are pseudonymised all the same
		{{W: true, Z: "^(status|qty|name)$"}, {Z: "^(status|qty|name)$"}}, {{W: true, Z: "(?i)city|mail|nomatchatall", N: true}, {Z: "(?i)city|mail|nomatchatall", N: true}}}
	cells := map[string]int{}
	var cmu sync.Mutex
	parallelDo(nlogs, func(li int) {
		lg := logs[li]
		fp := fpairs[li%len(fpairs)]
		if li%len(fpairs) == 2 && li%12 != 2 {
			fp = fpairs[0] // encrypt pairs are a twelfth of the logs
		}
		lines := make([][]byte, len(lg.items))
		for i, it := range lg.items {
			lines[i] = it.Raw
		}
		ow := RunLines(s, fp[0], li, lines)
		onw := RunLines(s, fp[1], li, lines)
		rep := fp[0].Replacement()
		form := regexp.MustCompile("^" + regexp.QuoteMeta(rep) + "_[0-9a-f]{16}$")
		n2p, p2n := map[string]string{}, map[string]string{}
		for i, it := range lg.items {
			snW := Seen{Item: it, Flags: fp[0], Res: ow[i]}
			if ow[i].Out != nil {
				snW.Out, snW.OutErr = jt.ParseObject(ow[i].Out)
			}
			if !basicOutcome(c, snW, true) {
				continue
			}
			tn, errN := jt.ParseObject(onw[i].Out)
			if errN != nil {
				c.Count("flag_off_output_missing", 1)
				continue
			}
			h := NewHaystack(ow[i].Out, snW.Out)
			npos := 0
			walk3(nil, it.Tree, tn, snW.Out, func(path []string, in, p, e *jt.Node, mism string) {
				if mism != "" {
					if p != nil && e != nil && in != nil {
						c.Violation("shape-differs-from-flag-off|"+opSig(path), fmt.Sprintf("with --redactNamespaces the shape at %s differs from the flag-off run (%s)", jt.PathStr(path), mism), replayOf(snW, map[string]any{"flag_off_output": string(onw[i].Out)}))
					}
					return
				}
				isNs := in.T != nil && (in.T.Role == jt.NsDB || in.T.Role == jt.NsColl || in.T.Role == jt.NsFull)
				if !isNs {
					switch e.K {
					case jt.Str, jt.Num:
						if e.S != p.S {
							c.Violation("not-confined|"+opSig(path), fmt.Sprintf("--redactNamespaces changes a value that is not a namespace, at %s: %s (flag off) vs %s (flag on)", jt.PathStr(path), short(p.Bytes(jt.Plain), 60), short(e.Bytes(jt.Plain), 60)), replayOf(snW, map[string]any{"flag_off_output": string(onw[i].Out)}))
						}
					case jt.Bool:
						if e.B != p.B {
							c.Violation("not-confined|"+opSig(path), fmt.Sprintf("--redactNamespaces changes a boolean at %s", jt.PathStr(path)), replayOf(snW, nil))
						}
					}
					return
				}
				if in.K != jt.Str || in.S == "" {
					return
				}
				npos++
				form0 := "string"
				if len(path) > 0 && (path[len(path)-1] == "db" || path[len(path)-1] == "coll") {
					form0 = "document"
				}
				cell := in.T.Role.String() + "/" + in.T.Slot + "/" + form0 + "/" + nsPosName(path)
				cmu.Lock()
				cells[cell]++
				cmu.Unlock()
				sig := nsPosName(path)
				switch {
				case e.S == in.S:
					c.Violation("namespace-in-clear|"+sig, fmt.Sprintf("%s %q at %s is emitted unchanged under --redactNamespaces", in.T.Role, in.S, jt.PathStr(path)), replayOf(snW, map[string]any{"leaf": jt.PathStr(path)}))
					return
				case e.S == rep:
					c.Violation("generic-instead-of-pseudonym|"+sig, fmt.Sprintf("%s %q at %s becomes the generic %q instead of its pseudonym (references between fields are lost)", in.T.Role, in.S, jt.PathStr(path), rep), replayOf(snW, map[string]any{"leaf": jt.PathStr(path)}))
					return
				}
				ic, oc := strings.Split(in.S, "."), strings.Split(e.S, ".")
				for k := range ic {
					// "$cmd" and "cmd" are one name as far as pseudonyms go (a leading '$' does not change the result, C13)
					if t := strings.TrimLeft(ic[k], "$"); t != "" {
						ic[k] = t
					}
				}
				if len(ic) != len(oc) {
					c.Violation("not-componentwise|"+sig, fmt.Sprintf("%q at %s has %d dot-separated components but its replacement %q has %d", in.S, jt.PathStr(path), len(ic), trunc(e.S, 80), len(oc)), replayOf(snW, map[string]any{"leaf": jt.PathStr(path)}))
					return
				}
				for k := range ic {
					if !form.MatchString(oc[k]) {
						c.Violation("pseudonym-form|"+sig, fmt.Sprintf("component %q of %q at %s becomes %q, not <replacement>_<16 hex>", ic[k], in.S, jt.PathStr(path), trunc(oc[k], 60)), replayOf(snW, map[string]any{"leaf": jt.PathStr(path)}))
						continue
					}
					if prev, seen := n2p[ic[k]]; seen && prev != oc[k] {
						c.Violation("inconsistent-pseudonym|"+sig, fmt.Sprintf("name component %q has two pseudonyms in one log: %q and %q (second at %s)", ic[k], prev, oc[k], jt.PathStr(path)), replayOf(snW, nil))
					}
					if prev, seen := p2n[oc[k]]; seen && prev != ic[k] {
						c.Violation("pseudonym-collision", fmt.Sprintf("names %q and %q share the pseudonym %q", prev, ic[k], oc[k]), replayOf(snW, nil))
					}
					n2p[ic[k]], p2n[oc[k]] = oc[k], ic[k]
					c.Count("name_components_mapped", 1)
				}
			})
			// whole-line leak search for the planted (unique) name components
			if cs := it.Case; cs != nil {
				names := map[string]bool{}
				it.Tree.Walk(nil, func(_ []string, n *jt.Node) {
					if n.T != nil && (n.T.Role == jt.NsDB || n.T.Role == jt.NsColl || n.T.Role == jt.NsFull) && n.K == jt.Str {
						for _, comp := range strings.Split(n.S, ".") {
							if len(comp) >= 8 && !c12Common[comp] {
								names[comp] = true
							}
						}
					}
				})
				for nm := range names {
					c.Count("names_leak_searched", 1)
					if h.HasString(nm) {
						c.Violation("name-visible|"+cs.Verb, fmt.Sprintf("the planted name %q is visible somewhere in the line emitted under --redactNamespaces", nm), replayOf(snW, map[string]any{"name": nm}))
					}
				}
			}
			key := ""
			if npos > 0 {
				key = string(it.Raw) + fp[0].String()
			}
			c.Eval(key)
			c.Count("namespace_positions_checked", npos)
			if li < 2 && i < 2 {
				c.Sample(map[string]any{"flags": fp[0].String(), "input": short(it.Raw, 500), "output": short(ow[i].Out, 500)})
			}
		}
		c.Count("logs", 1)
	})
	reportBatchAnomalies(c)
	c.Set("namespace_position_cells", cells)
	raceVerdict(s, c)
	if c.Counter("logs") < 300 || c.Counter("namespace_positions_checked") < 10000 {
		c.Inconclusive("too few logs / positions")
	}
	c.Assume("the 'distinct' verb is not among the verbs the statement lists and is not generated here")
	c.Assume("names are planted only at the positions the statement lists; other attributes hold unrelated text")
	c.Assume("P is the mapping observed in the same log (its form and stability are C13's subject); replacement strings contain no '.'")
	return c.Finish("multi-line logs (18 lines, one process each) mixing 2–6 namespaces drawn from a pool with Unicode names, dotted collection names, system.*, $cmd and names that are prefixes of each other; every declared verb and alias, getMore, error-report and originating-command carriers, other components with attr.ns, and $lookup/$graphLookup/$unionWith/$merge/$out in string, {coll}, {into} and {db,coll} forms at depth 0–3; oracles: leak search, positional mask from the statement, name↔pseudonym bimap per log, tree diff against the flag-off run")
}

// nsPosName abstracts a namespace position into a signature.
func nsPosName(path []string) string {
	var el []string
	for _, p := range path {
		switch {
		case strings.HasPrefix(p, "["):
		case p == "attr" || p == "command" || p == "originatingCommand" || p == "cmd":
			if p != "attr" && len(el) == 0 {
				el = append(el, "<cmd>")
			}
		case strings.HasPrefix(p, "$") || structural[p]:
			el = append(el, p)
		default:
			el = append(el, "F")
		}
	}
	// keep the last stage operator and what follows; note nesting
	last := -1
	nested := 0
	for i, e := range el {
		if e == "$lookup" || e == "$graphLookup" || e == "$unionWith" || e == "$merge" || e == "$out" {
			last = i
		}
		if e == "$facet" || (e == "pipeline" && i > 0 && strings.HasPrefix(el[i-1], "$")) {
			nested++
		}
	}
	if last >= 0 {
		s := strings.Join(el[last:], ">")
		if nested > 0 {
			s = "nested>" + s
		}
		return s
	}
	return strings.Join(el, ">")
}
