package checks

import (
	"bytes"
	"fmt"
	"math/rand"
	"regexp"
	"sort"
	"strings"

	"verif/ev"
	"verif/gen"
	"verif/jt"
	"verif/sut"
)

// C13: pseudonyms are a stable, collision-free, component-wise function of
// the name. Relational oracle only: the SHA-256 formula is NOT pinned, a
// different stable collision-free function must not alarm.
//
// History recorded at the API boundary (HashName through the agent, and the
// pseudonyms visible in -w / -f CLI output); judged offline in the driver.

var c13Alphabet = []rune("abcdefghijklmnopqrstuvwxyz0123456789_-Z ")

func c13Dictionary() []string {
	var d []string
	a := c13Alphabet
	for _, x := range a {
		d = append(d, string(x))
	}
	for _, x := range a {
		for _, y := range a {
			d = append(d, string([]rune{x, y}))
		}
	}
	for _, x := range a {
		for _, y := range a {
			for _, z := range a {
				d = append(d, string([]rune{x, y, z}))
			}
		}
	}
	return d
}

func strOuts(rec sut.AgentRec) []string {
	o, _ := rec["outs"].([]any)
	r := make([]string, len(o))
	for i, v := range o {
		r[i], _ = v.(string)
	}
	return r
}

func C13() int {
	s, c, g, ok := setup("C13", "exploration")
	if !ok {
		return c.Finish("build failed")
	}
	defer s.Close()
	rng := rand.New(rand.NewSource(c.Seed*31 + 13))

	// ---- single components (no '.', no leading '$')
	comps := c13Dictionary()
	c.Set("dictionary_len_le3_over_40_symbols", len(comps))
	seen := map[string]bool{}
	for _, x := range comps {
		seen[x] = true
	}
	add := func(x string) {
		if !seen[x] && !strings.Contains(x, ".") && !strings.HasPrefix(x, "$") {
			seen[x] = true
			comps = append(comps, x)
		}
	}
	nIdent := pickN(c, 100000, 2000000)
	for i := 0; i < nIdent; i++ {
		n := 4 + rng.Intn(17)
		b := make([]byte, n)
		for j := range b {
			b[j] = "abcdefghijklmnopqrstuvwxyzABCDEFGHIJKLMNOPQRSTUVWXYZ0123456789_"[rng.Intn(63)]
		}
		add(string(b))
	}
	for _, x := range []string{"", "é", "漢字", "😀", "Ünï", "naïve", "a b", "a\tb", "a\"b", "a\\b", "\u0000", "IXSCAN", "REDACTED", "REDACTED_0123456789abcdef", "x$y", "x$", "системa", "db", "system", "views", "admin", "ß", "ẞ", "K", "K", "k", "ﬁ", "fi", "é", "é"} {
		add(x)
	}
	for i := 0; i < 3000; i++ {
		add(g.Token())
	}
	for i := 0; i < 400; i++ {
		x := strings.ReplaceAll(g.Dress([]string{"unicode", "astral", "escape", "html", "upper", "space"}[i%6]), ".", "")
		add(x)
	}
	// ---- dotted compositions (depth 1..5), '$'-prefixed, empty components
	var dotted [][]string
	for i := 0; i < pickN(c, 20000, 200000); i++ {
		d := 2 + rng.Intn(4)
		parts := make([]string, d)
		for j := range parts {
			parts[j] = comps[rng.Intn(len(comps))]
			if rng.Intn(40) == 0 {
				parts[j] = ""
			}
		}
		dotted = append(dotted, parts)
	}
	dotted = append(dotted, []string{"a", "a"}, []string{"", ""}, []string{"", "a", ""}, []string{"db", "system", "views"})
	// array positions inside paths (digits-only components, leading and not)
	for _, x := range []string{"items", "sku", "10", "0", "1", "2", "3", "007"} {
		add(x)
	}
	// a '$'-leading component in any position ("db.$cmd", "$cmd.aggregate", "items.$id"): the pseudonym depends on the
	// component only, and a leading '$' does not change it - so it is P(component without its '$') wherever it stands
	for _, x := range []string{"cmd", "aggregate", "shopdb", "id", "owner", "b"} {
		add(x)
	}
	dotted = append(dotted, []string{"shopdb", "$cmd"}, []string{"$cmd", "aggregate"}, []string{"shopdb", "$cmd", "aggregate"}, []string{"owner", "$id"}, []string{"a", "$b", "c"}, []string{"$a", "$b"})
	// long components (flattened / generated keys, long CJK names) that share their first 64 / 128 / 255 bytes, and
	// paths with more components than any document nests (a key is a string: it may hold any number of dots)
	long := []string{}
	for _, n := range []int{63, 64, 65, 127, 128, 129, 255, 256, 1000} {
		base := strings.Repeat("x", n)
		long = append(long, base, base+"_billing", base+"_shipping")
	}
	long = append(long, strings.Repeat("名", 60)+"前", strings.Repeat("名", 60)+"後", strings.Repeat("segment_", 20)+"a", strings.Repeat("segment_", 20)+"b")
	for _, x := range long {
		add(x)
	}
	dotted = append(dotted, []string{long[0], long[4]}, []string{long[13], long[14], "a"})
	for _, depth := range []int{99, 100, 101, 120, 300} {
		parts := make([]string, depth)
		for j := range parts {
			parts[j] = comps[(j*7+depth)%len(comps)]
		}
		dotted = append(dotted, parts)
	}
	dotted = append(dotted, []string{"items", "1", "sku"}, []string{"items", "2", "sku"}, []string{"a", "0"}, []string{"a", "10", "b", "3"}, []string{"0", "1"}, []string{"items", "007"})
	var dollar []string
	for i := 0; i < 5000; i++ {
		dollar = append(dollar, comps[rng.Intn(len(comps))])
	}

	reps := []string{"REDACTED", "", "Ωm_é", "a_b.c", "[x]", "100%", "%s%d%%v"}
	names := func() []string {
		all := append([]string{}, comps...)
		for _, p := range dotted {
			all = append(all, strings.Join(p, "."))
		}
		for k, d := range dollar {
			// one leading '$' - or several ("$$ROOT", "$$this.price" are how variables are written)
			all = append(all, strings.Repeat("$", 1+(k%7)/5+(k%11)/10)+d)
		}
		return all
	}()
	nC, nD := len(comps), len(dotted)
	c.Set("single_components", nC)
	c.Set("dotted_compositions", nD)
	c.Set("dollar_prefixed", len(dollar))
	c.Set("replacement_strings", reps)

	// process A: sorted order, replacement cycle, then default again, then
	// poisoned side table.
	order := make([]int, len(names))
	for i := range order {
		order[i] = i
	}
	permuted := func(ord []int) []string {
		o := make([]string, len(ord))
		for i, j := range ord {
			o[i] = names[j]
		}
		return o
	}
	sortedOrd := append([]int{}, order...)
	sort.Slice(sortedOrd, func(a, b int) bool { return names[sortedOrd[a]] < names[sortedOrd[b]] })
	shuf := append([]int{}, order...)
	rng.Shuffle(len(shuf), func(a, b int) { shuf[a], shuf[b] = shuf[b], shuf[a] })
	rev := append([]int{}, sortedOrd...)
	for i, j := 0, len(rev)-1; i < j; i, j = i+1, j-1 {
		rev[i], rev[j] = rev[j], rev[i]
	}
	// a sample across all three groups (single components, dotted paths incl. the explicit ones at
	// the end, '$'-prefixed) for the batches that repeat the calls under other option histories
	var sampleIdx []int
	for j := 0; j < nC && j < 25000; j++ {
		sampleIdx = append(sampleIdx, j)
	}
	for j := 0; j < nD; j++ {
		if j < 12000 || j >= nD-10 {
			sampleIdx = append(sampleIdx, nC+j)
		}
	}
	for j := 0; j < len(dollar) && j < 3000; j++ {
		sampleIdx = append(sampleIdx, nC+nD+j)
	}
	sample := permuted(sampleIdx)

	var scriptA []sut.AgentCmd
	type want struct {
		rep string
		ord []int // nil: `sample` in natural order
		tag string
	}
	var wantsA, wantsB []want
	for _, r := range reps {
		scriptA = append(scriptA, sut.AgentCmd{"op": "set", "replacement": r}, sut.AgentCmd{"op": "hash", "names": permuted(sortedOrd)})
		wantsA = append(wantsA, want{}, want{r, sortedOrd, "A/sorted"})
	}
	scriptA = append(scriptA, sut.AgentCmd{"op": "set", "replacement": "REDACTED"}, sut.AgentCmd{"op": "hash", "names": sample})
	wantsA = append(wantsA, want{}, want{"REDACTED", nil, "A/after-option-changes"})
	scriptA = append(scriptA, sut.AgentCmd{"op": "poison_mapping", "names": sample[:2000]}, sut.AgentCmd{"op": "hash", "names": sample})
	wantsA = append(wantsA, want{}, want{"REDACTED", nil, "A/poisoned-side-table"})
	// the pseudonym depends on the name and the replacement only: not on --encrypt / the key
	scriptA = append(scriptA, sut.AgentCmd{"op": "set", "encrypt": true, "key_b64": TestKeyB64}, sut.AgentCmd{"op": "hash", "names": sample})
	wantsA = append(wantsA, want{}, want{"REDACTED", nil, "A/encrypt-on-key-1"})
	scriptA = append(scriptA, sut.AgentCmd{"op": "set", "encrypt": true, "key_b64": b64(bytes.Repeat([]byte{9}, 64))}, sut.AgentCmd{"op": "hash", "names": sample})
	wantsA = append(wantsA, want{}, want{"REDACTED", nil, "A/encrypt-on-key-2"})
	scriptA = append(scriptA, sut.AgentCmd{"op": "set", "encrypt": false, "key_b64": "", "numbers": true, "booleans": true, "ips": true, "namespaces": true}, sut.AgentCmd{"op": "hash", "names": sample})
	wantsA = append(wantsA, want{}, want{"REDACTED", nil, "A/other-flags-on"})
	scriptA = append(scriptA, sut.AgentCmd{"op": "set", "numbers": false, "booleans": false, "ips": false, "namespaces": false})
	wantsA = append(wantsA, want{})
	scriptA = append(scriptA, sut.AgentCmd{"op": "mapping_size"})
	wantsA = append(wantsA, want{})

	// process B: side table poisoned first, shuffled and reversed orders,
	// replacement switched between every batch.
	scriptB := []sut.AgentCmd{{"op": "poison_mapping", "names": sample[:5000]}}
	wantsB = append(wantsB, want{})
	for i, r := range []string{"[x]", "REDACTED", "Ωm_é", "REDACTED", "", "a_b.c", "100%", "%s%d%%v"} {
		ord, tag := shuf, "B/shuffled"
		if i%2 == 1 {
			ord, tag = rev, "B/reversed"
		}
		scriptB = append(scriptB, sut.AgentCmd{"op": "set", "replacement": r}, sut.AgentCmd{"op": "hash", "names": permuted(ord)})
		wantsB = append(wantsB, want{}, want{r, ord, tag})
	}

	type procOut struct {
		recs []sut.AgentRec
		err  string
	}
	outs := make([]procOut, 2)
	parallelDo(2, func(i int) {
		sc := scriptA
		if i == 1 {
			sc = scriptB
		}
		recs, crashed, res, err := s.Agent(sc, nil, 0)
		if err != nil {
			outs[i].err = err.Error()
		} else if crashed >= 0 {
			outs[i].err = fmt.Sprintf("agent died in command %d: %s", crashed, short(res.Stderr, 500))
		} else if res.TimedOut {
			outs[i].err = "watchdog"
		}
		outs[i].recs = recs
	})
	for i := range outs {
		if outs[i].err != "" {
			c.Inconclusive("agent process " + string(rune('A'+i)) + ": " + firstLine(outs[i].err))
			return c.Finish("agent failed")
		}
	}

	// P[rep][nameIndex] from the first observation; every later observation
	// must agree (determinism across orders, option histories, processes).
	P := map[string][]string{}
	first := map[string]string{}
	judge := func(ws []want, recs []sut.AgentRec) {
		for i, w := range ws {
			if w.tag == "" {
				if p, ok := recs[i]["panic"]; ok {
					c.Violation("panic|set", fmt.Sprint(p), nil)
				}
				continue
			}
			o := strOuts(recs[i])
			idx := w.ord
			if idx == nil {
				idx = sampleIdx
			}
			if len(o) != len(idx) {
				c.Inconclusive(fmt.Sprintf("%s: %d results for %d names (%v)", w.tag, len(o), len(idx), recs[i]["panic"]))
				continue
			}
			tab := P[w.rep]
			if tab == nil {
				tab = make([]string, len(names))
				P[w.rep] = tab
				first[w.rep] = w.tag
			}
			bad := 0
			for k, j := range idx {
				c.Count("hash_calls_observed", 1)
				if tab[j] == "" {
					tab[j] = "\x00" + o[k]
					continue
				}
				if tab[j][1:] != o[k] {
					if bad++; bad <= 3 {
						c.Violation("unstable|"+w.tag+"-vs-"+first[w.rep], fmt.Sprintf("P(%q) under replacement %q is %q in %s but %q in %s", names[j], w.rep, tab[j][1:], first[w.rep], o[k], w.tag),
							map[string]any{"name": names[j], "replacement": w.rep})
					}
				}
			}
			c.Eval(w.tag + "|" + w.rep)
		}
	}
	judge(wantsA, outs[0].recs)
	judge(wantsB, outs[1].recs)

	// relational oracles per replacement
	for _, r := range reps {
		tab := P[r]
		if tab == nil {
			c.Inconclusive("no observation for replacement " + r)
			continue
		}
		get := func(j int) string { return tab[j][1:] }
		form := regexp.MustCompile("^" + regexp.QuoteMeta(r) + "_[0-9a-f]{16}$")
		inv := make(map[string]int, nC)
		nbad := 0
		for j := 0; j < nC; j++ {
			p := get(j)
			if !form.MatchString(p) {
				if nbad++; nbad <= 3 {
					c.Violation("form", fmt.Sprintf("P(%q) = %q does not have the form <replacement>_<16 hex> (replacement %q)", names[j], p, r), map[string]any{"name": names[j], "replacement": r})
				}
			}
			if k, dup := inv[p]; dup {
				if nbad++; nbad <= 6 {
					c.Violation("collision", fmt.Sprintf("P(%q) = P(%q) = %q (replacement %q)", names[k], names[j], p, r), map[string]any{"a": names[k], "b": names[j], "replacement": r})
				}
			}
			inv[p] = j
			c.Count("components_checked_form_and_injectivity", 1)
			c.Eval(r + "\x00" + names[j])
		}
		idxOf := make(map[string]int, nC)
		for j := 0; j < nC; j++ {
			idxOf[names[j]] = j
		}
		nb := 0
		for di, parts := range dotted {
			ps := make([]string, len(parts))
			for k, p := range parts {
				ps[k] = get(idxOf[strings.TrimLeft(p, "$")])
			}
			exp := strings.Join(ps, ".")
			if got := get(nC + di); got != exp {
				if nb++; nb <= 3 {
					c.Violation("not-componentwise", fmt.Sprintf("P(%q) = %q but the components map to %q (replacement %q)", names[nC+di], got, exp, r), map[string]any{"name": names[nC+di], "replacement": r})
				}
			}
			c.Count("dotted_paths_checked", 1)
		}
		for k, d := range dollar {
			if got, exp := get(nC+nD+k), get(idxOf[d]); got != exp {
				if nb++; nb <= 6 {
					c.Violation("dollar-sensitive", fmt.Sprintf("P(%q) = %q but P(%q) = %q (replacement %q)", "$"+d, got, d, exp, r), map[string]any{"name": d, "replacement": r})
				}
			}
			c.Count("dollar_pairs_checked", 1)
		}
		c.Eval("relations|" + r)
		c.Sample(map[string]any{"replacement": r, "name": names[nC], "pseudonym": get(nC), "first_component": names[idxOf[dotted[0][0]]], "its_pseudonym": get(idxOf[dotted[0][0]])})
	}

	// second-order names: a name that HAS the shape of a pseudonym (the tool's own output fed back,
	// a field that stores a redacted name) is a name like any other
	if tab := P["REDACTED"]; tab != nil {
		var pp []string
		for j := 0; j < 3000 && j < nC; j++ {
			pp = append(pp, tab[(j*53)%nC][1:])
		}
		pp = append(pp, "REDACTED_0000000000000000", "REDACTED_ffffffffffffffff", "REDACTED_", "REDACTED")
		recs, crashed, res, err := s.Agent([]sut.AgentCmd{{"op": "set", "replacement": "REDACTED"}, {"op": "hash", "names": pp}}, nil, 0)
		if err != nil || crashed >= 0 || len(recs) != 2 {
			c.Inconclusive("agent (second-order names): " + short(res.Stderr, 200))
		} else {
			o := strOuts(recs[1])
			first := map[string]string{}
			for j := 0; j < nC; j++ {
				first[tab[j][1:]] = names[j]
			}
			form := regexp.MustCompile("^REDACTED_[0-9a-f]{16}$")
			for k := range pp {
				if k >= len(o) {
					break
				}
				c.Count("pseudonym_shaped_names_checked", 1)
				if !form.MatchString(o[k]) {
					c.Violation("form|second-order", fmt.Sprintf("P(%q) = %q does not have the form <replacement>_<16 hex>", pp[k], o[k]), map[string]any{"name": pp[k]})
				}
				if other, dup := first[o[k]]; dup && other != pp[k] {
					c.Violation("collision|second-order", fmt.Sprintf("P(%q) = P(%q) = %q: a name that looks like a pseudonym collides with an ordinary name", pp[k], other, o[k]), map[string]any{"a": pp[k], "b": other})
				}
			}
		}
	}

	// CLI: pseudonyms visible in -w and -f output must be the in-process ones.
	c13CLI(s, c, g, P["REDACTED"], names, nC)

	optionHistory(s, c, CoreCorpus(gen.New(c.Seed*83+13), 200))
	raceVerdict(s, c)
	if c.Counter("hash_calls_observed") < 500000 {
		c.Inconclusive(fmt.Sprintf("only %d HashName results observed", c.Counter("hash_calls_observed")))
	}
	c.Assume("component-level names contain no '.' and no leading '$'; dotted and '$'-prefixed names are judged only relative to their components")
	c.Assume("two names are 'different components' when their UTF-8 byte strings differ (no Unicode normalisation)")
	c.Set("evaluation_unit", "one (replacement, name component) pair whose pseudonym was checked for form, injectivity and stability; dotted / '$' / order / process relations are counted under observations")
	return c.Finish("HashName called through the in-process agent on the complete ≤3-character dictionary over 40 symbols plus generated identifiers, Unicode names and the empty component, their dotted compositions (depth 2–5) and '$'-prefixed forms, under 5 replacement strings, in sorted / reversed / shuffled order, in two separate processes, with option changes between batches and with a poisoned side table; plus pseudonyms read out of real CLI -w / -f output. Oracles are relational (determinism, injectivity, homomorphism over '.', '$'-insensitivity, form)")
}

func c13CLI(s *sut.SUT, c *ev.Check, g *gen.Gen, tab []string, names []string, nC int) {
	if tab == nil {
		return
	}
	P := func(j int) string { return tab[j][1:] }
	// pick db / coll / field names from the component list (ASCII identifiers
	// region) so the in-process pseudonym is known.
	pick := func(i int) int { return 65640 + (i*7919)%(nC-65640-4000) }
	var linesW, linesF [][]byte
	type exp struct{ db, coll, f1, f2 int }
	var exps []exp
	var wantColls []string
	idxSystem := -1
	for j := 0; j < nC; j++ {
		if names[j] == "system" {
			idxSystem = j
		}
	}
	if idxSystem < 0 {
		return
	}
	for i := 0; i < 120; i++ {
		e := exp{pick(4 * i), pick(4*i + 1), pick(4*i + 2), pick(4*i + 3)}
		exps = append(exps, e)
		collName := names[e.coll]
		wantColl := P(e.coll)
		if i%3 == 1 { // dotted collection names: oplog.rs, system.buckets.x
			collName = names[e.coll] + "." + names[e.f1]
			wantColl = P(e.coll) + "." + P(e.f1)
		} else if i%3 == 2 {
			collName = "system." + names[e.coll] + "." + names[e.f2]
			wantColl = P(idxSystem) + "." + P(e.coll) + "." + P(e.f2)
		}
		wantColls = append(wantColls, wantColl)
		ns := names[e.db] + "." + collName
		mk := func(nsPrefixOn bool) []byte {
			db := names[e.db]
			if nsPrefixOn {
				db = "fdb" // fixed prefix for -f
			}
			l := jt.ObjN("t", jt.ObjN("$date", jt.StrN("2025-01-01T00:00:00.000Z")), "s", jt.StrN("I"), "c", jt.StrN("COMMAND"), "id", jt.IntN(51803), "ctx", jt.StrN("conn1"), "msg", jt.StrN("Slow query"),
				"attr", jt.ObjN("type", jt.StrN("command"), "ns", jt.StrN(db+"."+collName), "command",
					jt.ObjN("find", jt.StrN(collName), "filter", jt.ObjN(names[e.f1], jt.StrN("v"), names[e.f2], jt.ObjN("$gt", jt.IntN(3))), "sort", jt.ObjN(names[e.f1], jt.IntN(1)), "$db", jt.StrN(db))))
			return l.Bytes(jt.Plain)
		}
		_ = ns
		linesW = append(linesW, mk(false))
		linesF = append(linesF, mk(true))
	}
	for run := 0; run < 3; run++ {
		fw := Flags{W: true}
		if run == 2 {
			fw.Enc = true // pseudonyms are the same whether or not values are encrypted
		}
		ow := RunLines(s, fw, run, linesW)
		of := RunLines(s, Flags{F: "fdb"}, run, linesF)
		for i, e := range exps {
			if t, err := jt.ParseObject(ow[i].Out); err == nil {
				got := t.Get("attr").Get("ns")
				want := P(e.db) + "." + wantColls[i]
				if fn := t.Get("attr").Get("command").Get("find"); fn == nil || fn.S != wantColls[i] {
					c.Violation("cli-vs-inprocess|-w-find", fmt.Sprintf("command.find of collection %q comes out as %s under -w, component-wise P gives %q", names[e.coll], nodeBytes(fn), wantColls[i]),
						map[string]any{"kind": "redact-line", "flags": []string{"-w"}, "input": string(linesW[i]), "output": string(ow[i].Out)})
				}
				c.Count("cli_pseudonyms_compared", 1)
				if got == nil || got.S != want {
					c.Violation("cli-vs-inprocess|-w", fmt.Sprintf("attr.ns %q.%q comes out as %s under -w, in-process P gives %q", names[e.db], names[e.coll], nodeBytes(got), want),
						map[string]any{"kind": "redact-line", "flags": []string{"-w"}, "input": string(linesW[i]), "output": string(ow[i].Out)})
				}
			} else {
				c.Inconclusive("CLI -w produced no parseable output")
			}
			if t, err := jt.ParseObject(of[i].Out); err == nil {
				fl := t.Get("attr").Get("command").Get("filter")
				c.Count("cli_pseudonyms_compared", 2)
				if fl == nil || len(fl.Keys) != 2 || fl.Keys[0] != P(e.f1) || fl.Keys[1] != P(e.f2) {
					c.Violation("cli-vs-inprocess|-f", fmt.Sprintf("filter keys %q,%q come out as %s under -f, in-process P gives %q,%q", names[e.f1], names[e.f2], nodeBytes(fl), P(e.f1), P(e.f2)),
						map[string]any{"kind": "redact-line", "flags": []string{"-f", "fdb"}, "input": string(linesF[i]), "output": string(of[i].Out)})
				}
			} else {
				c.Inconclusive("CLI -f produced no parseable output")
			}
		}
	}
}
