package checks

import (
	"bytes"
	"fmt"

	"verif/gen"
	"verif/jt"
)

// C02: output is independent of the redacted values (non-interference).
func C02() int {
	s, c, g, ok := setup("C02", "exploration")
	if !ok {
		return c.Finish("build failed")
	}
	defer s.Close()
	g.LongMax = 300
	base := CoreCorpus(g, pickN(c, 900, 12000))
	k := pickN(c, 3, 8)
	modes := []gen.ReassignMode{gen.Fresh, gen.AllEqual, gen.CrossEqual, gen.Meta, gen.Long, gen.Tiny, gen.CrossEqual, gen.Fresh}
	var fsets []Flags
	if thorough(c) {
		for m := 0; m < 32; m++ {
			f := Flags{N: m&1 != 0, B: m&2 != 0, I: m&4 != 0, W: m&8 != 0}
			if m&16 != 0 {
				f.R = sp("[x]")
			}
			fsets = append(fsets, f)
		}
		fsets = append(fsets, Flags{F: "db"}, Flags{F: "db", N: true, B: true, W: true})
	} else {
		fsets = []Flags{{}, {N: true}, {B: true}, {N: true, B: true, I: true, W: true, R: sp("[x]")}, {I: true, R: sp("")}, {W: true, N: true}, {F: "db"}, {F: "db", N: true, B: true, I: true}}
	}
	classSeen := map[string]int{}
	type pair struct {
		a, b Item
		mode gen.ReassignMode
	}
	parallelDo(len(fsets), func(fi int) {
		f := fsets[fi]
		gg := gen.New(c.Seed*7919 + int64(fi)*104729 + 17)
		gg.LongMax = 300
		// pairs are generated, run and judged chunk by chunk (about 400 lines per process), so that
		// the thorough tier never holds more than one chunk of re-assigned trees per worker
		per := 400 / (2 * k)
		if per < 1 {
			per = 1
		}
		for blo, lineNo := 0, 0; blo < len(base); blo += per {
			bhi := blo + per
			if bhi > len(base) {
				bhi = len(base)
			}
			var pairs []pair
			var lines [][]byte
			for i := blo; i < bhi; i++ {
				it := base[i]
				for r := 0; r < k; r++ {
					mode := modes[(i+r)%len(modes)]
					st := []jt.Style{jt.Plain, jt.GoLike, jt.Unicode}[(i+r)%3]
					if (i+r)%9 == 4 {
						// "echo": a NON-sensitive text of the line (the server's error message, the application
						// name) quotes a value that is sensitive elsewhere in member A; member B carries the same
						// text but other sensitive values. The text belongs to both lines, so it must come out the
						// same in both (whatever the tool does with it).
						if ta := c02Echo(it.Tree); ta != nil {
							it = Item{Case: it.Case, Tree: ta, Raw: ta.Bytes(st)}
							mode = gen.Fresh
							c.Count("echo_pairs", 1)
						}
					}
					t2 := gg.Reassign(it.Tree, gen.ReassignOpts{Mode: mode, Numbers: f.N, Bools: f.B, Remote: f.I, LongLen: 20000})
					b := Item{Case: it.Case, Tree: t2, Raw: t2.Bytes(st)}
					if len(b.Raw) > 60000 {
						continue
					}
					pairs = append(pairs, pair{it, b, mode})
					lines = append(lines, it.Raw, b.Raw)
				}
			}
			if len(lines) == 0 {
				continue
			}
			{
				lo, hi := 0, len(lines)
				first := lineNo == 0
				lineNo += len(lines)
				outs := RunLines(s, f, fi+blo, lines[lo:hi])
				for j := 0; j+1 < len(outs); j += 2 {
					p := pairs[(lo+j)/2]
					oa, ob := outs[j], outs[j+1]
					if oa.Timeout || ob.Timeout {
						c.Inconclusive("watchdog fired")
						continue
					}
					nch := 0
					jt.Align(p.a.Tree, p.b.Tree, false, func(o jt.Obs) {
						if o.In.T != nil && o.In.T.Role == jt.Sens && o.Mismatch == "" && (o.In.S != o.Out.S || o.In.B != o.Out.B) {
							nch++
							ls := o.In.T.Class
							classMu.Lock()
							classSeen[ls]++
							classMu.Unlock()
						}
					})
					key := ""
					if nch > 0 {
						key = string(p.b.Raw) + f.String()
					}
					c.Eval(key)
					c.Count("line_pairs_compared", 1)
					c.Count("leaves_reassigned", nch)
					if oa.Out == nil || ob.Out == nil || oa.Crash != "" || ob.Crash != "" {
						if (oa.Out == nil) != (ob.Out == nil) || (oa.Crash == "") != (ob.Crash == "") {
							sn := Seen{Item: p.b, Flags: f, Res: ob}
							c.Violation("outcome-differs|"+p.a.Label(), fmt.Sprintf("one member of a pair produced output and the other did not (flags %s)", f), replayOf(sn, map[string]any{"input_a": string(p.a.Raw), "output_a": string(oa.Out)}))
						} else {
							c.Count("pairs_without_output", 1)
						}
						continue
					}
					if !bytes.Equal(oa.Out, ob.Out) {
						// name the leaf
						where, sig := "?", "?"
						ta, ea := jt.ParseObject(oa.Out)
						tb, eb := jt.ParseObject(ob.Out)
						if ea == nil && eb == nil {
							done := false
							jt.Align(ta, tb, false, func(o jt.Obs) {
								if done {
									return
								}
								if o.Mismatch != "" || (o.In.K <= jt.Str && (o.In.S != o.Out.S || o.In.B != o.Out.B)) {
									where, sig, done = jt.PathStr(o.Path), opSig(o.Path), true
								}
							})
						}
						sn := Seen{Item: p.b, Flags: f, Res: ob}
						c.Violation("value-dependent-output|"+sig, fmt.Sprintf("outputs of two lines that differ only in sensitive values differ at %s (reassignment mode %d, flags %s)", where, p.mode, f),
							replayOf(sn, map[string]any{"input_a": string(p.a.Raw), "output_a": string(oa.Out), "differs_at": where}))
					}
					if fi == 0 && first && j < 4 {
						c.Sample(map[string]any{"flags": f.String(), "input_a": short(p.a.Raw, 400), "input_b": short(p.b.Raw, 400), "output_both": short(oa.Out, 400)})
					}
				}
			}
		}
	})
	optionHistory(s, c, base)
	reportBatchAnomalies(c)
	c.Set("reassigned_leaves_by_class", classSeen)
	c.Set("flag_sets", flagNames(fsets))
	raceVerdict(s, c)
	if c.Counter("line_pairs_compared") < 3000 {
		c.Inconclusive("too few pairs")
	}
	c.Assume("class membership is kept by construction: e-mail members come from a conservative sub-grammar, ordinary strings contain no '@' and never start with '$'")
	c.Assume("numbers / booleans / attr.remote are re-drawn only under -n / -b / -i (they are legitimately visible otherwise)")
	return c.Finish("for each grammar line L and flag set, k re-assignments L' of all sensitive leaves within their class (fresh, all-equal, metacharacter-heavy, one 20 000-character value, 1-character values); redact(L) and redact(L') are compared as bytes; a pair is non-trivial when at least one leaf actually changed, distinct by L'+flags")
}

// c02Echo returns a copy of the line in which attr.errMsg and attr.appName (both outside the
// query-bearing fields) quote the first sensitive string of the line; nil when there is none.
func c02Echo(tree *jt.Node) *jt.Node {
	t := tree.Clone()
	attr := t.Get("attr")
	if attr == nil || attr.K != jt.Obj {
		return nil
	}
	v := ""
	t.Walk(nil, func(_ []string, n *jt.Node) {
		if v == "" && n.T != nil && n.T.Role == jt.Sens && n.K == jt.Str && len(n.S) >= 4 && len(n.S) < 200 {
			v = n.S
		}
	})
	if v == "" {
		return nil
	}
	attr.Set("errMsg", jt.StrN("E11000 duplicate key error collection: shop.users index: k_1 dup key: { k: \""+v+"\" }").With(&jt.Tag{Role: jt.Keep}))
	attr.Set("appName", jt.StrN(v).With(&jt.Tag{Role: jt.Keep}))
	return t
}
