package checks

import (
	"bytes"
	"encoding/base64"
	"fmt"
	"os"
	"path/filepath"
	"regexp"
	"strconv"
	"strings"
	"time"

	"verif/atlasfake"
	"verif/ev"
	"verif/gen"
	"verif/sut"
)

// C16: Atlas mode fetches exactly the requested logs and redacts each into
// its own file. Offline checker over the fake endpoint's request log.

type c16Cfg struct {
	name    string
	hosts   []string // as written in the connection string
	srv     bool
	extra   bool
	members int
	lines   []int // lines per host
	window  [2]int
	flags   []string
	auth    string
}

var c16HostSets = [][]string{
	{"cl0-shard-00-00.abcde.mongodb.net:27017"},
	{"cl0-shard-00-00.abcde.mongodb.net:27017", "cl0-shard-00-01.abcde.mongodb.net:27017", "cl0-shard-00-02.abcde.mongodb.net:27017"},
	{"zulu-host.example.net:27017", "mike-host.example.net:27018", "alpha-host.example.net"},
	{"cl0-shard-00-02.abcde.mongodb.net:27017", "cl0-shard-00-00.abcde.mongodb.net:27017"},
	{"h5.example.net", "h4.example.net:1", "h3.example.net:65535", "h2.example.net", "h1.example.net:27017"},
	{"localhost"},
	{"10.1.2.3:27017", "10.1.2.4"},
	{"b.example.net:27017", "a.example.net:27017", "d.example.net:27017", "c.example.net:27017"},
	// two members on one machine (the same host name on two ports): two entries, two downloads, two outputs
	{"dup.example.net:27017", "dup.example.net:27018", "other.example.net:27017"},
	{"same.example.net:27017", "same.example.net:27018"},
	// host names outside [A-Za-z0-9.-] and IPv6 literals
	{"node_a.example.net:27017", "mongo_1:27018", "node-b.example.net"},
	{"[2001:db8::1]:27017", "[2001:db8::2]:27018"},
}

var reWindow = regexp.MustCompile(`^endDate=(-?\d+)&startDate=(-?\d+)$`)

func C16() int {
	s, c, g, ok := setup("C16", "exploration")
	if !ok {
		return c.Finish("build failed")
	}
	defer s.Close()
	g.LongMax = 100
	g.MaxDepth = 2
	var cfgs []c16Cfg
	windows := [][2]int{{0, 0}, {1744712000, 1748600000}, {1700000000, 1700000060}, {1, 2}, {1748000000, 1748003600}, {-3600, 3600}}
	flagSets := [][]string{nil, {"-n", "-b", "-w"}, {"-r", "[x]", "-i"}}
	memb := []int{1, 3, 1, 2}
	for i, hs := range c16HostSets {
		for wi, w := range windows {
			if false {
				continue
			}
			cf := c16Cfg{name: fmt.Sprintf("hosts%d/window%d", i, wi), hosts: hs, window: w, flags: flagSets[(i+wi)%len(flagSets)], members: memb[(i+wi)%len(memb)], extra: (i+wi)%2 == 0}
			for hi := range hs {
				n := []int{12, 0, 1, 40, 7}[(hi+i+wi)%5]
				if (i+wi)%9 == 4 && hi == 0 {
					n = pickN(c, 500, 8000) // large payload
				}
				cf.lines = append(cf.lines, n)
			}
			cfgs = append(cfgs, cf)
		}
	}
	cfgs = append(cfgs, c16Cfg{name: "srv-scheme", srv: true, hosts: []string{"cl0.abcde.mongodb.net"}, lines: []int{3}, members: 1})
	c.Set("configurations", len(cfgs))

	parallelDo(len(cfgs), func(ci int) {
		cf := cfgs[ci]
		gg := gen.New(c.Seed*1601 + int64(ci))
		gg.LongMax, gg.MaxDepth = 100, 2
		project, cluster := fmt.Sprintf("5f%022d", ci), fmt.Sprintf("Cluster%d", ci)
		conn := "mongodb://" + strings.Join(cf.hosts, ",") + "/?ssl=true&authSource=admin&replicaSet=atlas-abc-shard-0"
		if cf.srv {
			conn = "mongodb+srv://" + cf.hosts[0]
		}
		payload := map[string][]byte{}
		var names []string
		var gzs, raws [][]byte
		for hi, h := range cf.hosts {
			raw, z := atlasPayload(gg, hi, cf.lines[hi], cf.members)
			nm := stripPort(h)
			for pi, prev := range names {
				if prev == nm {
					raw, z = raws[pi], gzs[pi] // the same host named twice serves the same log twice
				}
			}
			names = append(names, nm)
			gzs = append(gzs, z)
			raws = append(raws, raw)
			payload[nm] = z
		}
		mk := func() *atlasfake.Server {
			fe := map[string]bool{}
			if ci%3 == 1 {
				// some hosts are reached through a front end that compresses responses for transport
				fe[names[0]], fe[names[len(names)-1]] = true, true
			}
			srv, err := atlasfake.New(atlasfake.Config{Project: project, Cluster: cluster, ConnStr: conn, ExtraJSON: cf.extra, Payload: payload, FrontEndGzip: fe})
			if err != nil {
				c.Inconclusive("fake endpoint: " + err.Error())
				return nil
			}
			return srv
		}
		S, E := cf.window[0], cf.window[1]
		expectedURLs := func(s0, e0 int) []string {
			u := []string{"/api/atlas/v2/groups/" + project + "/clusters/" + cluster}
			if !cf.srv {
				for _, nm := range names {
					u = append(u, fmt.Sprintf("/api/atlas/v2/groups/%s/clusters/%s/logs/mongodb.gz?endDate=%d&startDate=%d", project, nm, e0, s0))
				}
			}
			return u
		}
		rp := map[string]any{"kind": "atlas", "configuration": cf.name, "connection_string": conn, "window": cf.window, "flags": cf.flags}

		// ---------------- library level (explicit window; 0,0 is passed through as given)
		if srv := mk(); srv != nil {
			ls, le := S, E
			if ls == 0 {
				ls, le = 1748000000, 1748604800
			}
			recs, crashed, res, err := s.Agent([]sut.AgentCmd{
				{"op": "atlas_download", "base_url": srv.URL(), "pub": atlasPub, "priv": atlasPriv, "project": project, "cluster": cluster, "start": ls, "end": le},
			}, nil, 3*time.Minute)
			log := srv.Log()
			srv.Close()
			if err != nil || crashed >= 0 || len(recs) != 1 {
				c.Inconclusive("agent atlas_download failed: " + short(res.Stderr, 200))
			} else {
				c.Count("library_runs", 1)
				c.Count("requests_logged", len(log))
				rp2 := map[string]any{"level": "library", "requests": logURLs(log)}
				for k, v := range rp {
					rp2[k] = v
				}
				if cf.srv {
					if recs[0]["err"] == nil || len(log) > 2 {
						c.Violation("srv-scheme-not-failed-cleanly", fmt.Sprintf("SRV connection string without DNS: err=%v, %d requests", recs[0]["err"], len(log)), rp2)
					}
				} else {
					if recs[0]["err"] != nil {
						c.Violation("download-failed|library", fmt.Sprintf("%s: DownloadClusterLogs failed against a well-behaved endpoint: %v", cf.name, recs[0]["err"]), rp2)
					} else {
						if why := checkRequestLog(log, expectedURLs(ls, le)); why != "" {
							c.Violation("request-log|library|"+whyKind(why), fmt.Sprintf("%s: %s", cf.name, why), rp2)
						}
						contents, _ := recs[0]["contents"].([]any)
						if len(contents) != len(names) {
							c.Violation("file-count|library", fmt.Sprintf("%s: %d files returned for %d hosts", cf.name, len(contents), len(names)), rp2)
						}
						for i := range contents {
							cs, _ := contents[i].(string)
							b, _ := base64.StdEncoding.DecodeString(cs)
							c.Count("temp_files_compared", 1)
							if i < len(gzs) && !bytes.Equal(b, gzs[i]) {
								c.Violation("stored-bytes-differ|library", fmt.Sprintf("%s: temp file %d (%d bytes) is not the payload served for host %d (%s, %d bytes)", cf.name, i, len(b), i, names[i], len(gzs[i])), rp2)
							}
						}
					}
				}
			}
		}

		// ---------------- CLI level through the CONNECT proxy
		srv := mk()
		if srv == nil {
			return
		}
		defer srv.Close()
		dir := s.TempDir("c16")
		defer os.RemoveAll(dir)
		// the output name is a name, whatever characters it holds (percent signs, blanks, a trailing dot)
		outp := filepath.Join(dir, []string{"out.log", "incident-cpu100%.redacted.log", "my%20logs %d.log", "out", "%s%v.log.", "re dacted.2024-06-01.log"}[ci%6])
		args := []string{"redact", "--atlasProjectId", project, "--atlasClusterName", cluster, "-o", outp}
		if S != 0 {
			args = append(args, "--atlasLogStartDate", strconv.Itoa(S), "--atlasLogEndDate", strconv.Itoa(E))
		}
		args = append(args, cf.flags...)
		env := append(atlasEnv(srv, dir), "ATLAS_PUBLIC_KEY="+atlasPub, "ATLAS_PRIVATE_KEY="+atlasPriv)
		if ci%2 == 0 {
			// the output paths already hold older, longer results of an earlier run with the same --outputFile
			stale := bytes.Repeat([]byte(`{"stale":"per-host output of an earlier run"}`+"\n"), 4000)
			for i := 0; i <= len(names); i++ {
				os.WriteFile(fmt.Sprintf("%s.%d", outp, i), stale, 0o644)
			}
			os.WriteFile(outp, stale, 0o644)
			c.Count("cli_runs_onto_existing_longer_output_files", 1)
		}
		if S == 0 || ci%3 == 0 {
			// local time zone with a daylight-saving switch three days ago (clocks back / forward by
			// one hour): "the last seven days" of epoch seconds must not follow wall-clock arithmetic
			kind := []string{"fall-back", "spring-forward"}[ci%2]
			zf := filepath.Join(dir, "zone-"+kind)
			if err := os.WriteFile(zf, tzifWithRecentSwitch(time.Now().Unix(), kind == "fall-back"), 0o644); err == nil {
				env = append(env, "TZ="+zf)
				c.Count("cli_runs_in_a_zone_with_a_dst_switch_3_days_ago:"+kind, 1)
			}
		}
		t0 := time.Now().Unix()
		r := s.CLI(sut.Run{Args: args, Dir: dir, Env: env, Timeout: 3 * time.Minute})
		t1 := time.Now().Unix()
		log := srv.Log()
		c.Count("cli_runs", 1)
		c.Count("requests_logged", len(log))
		c.Eval(cf.name)
		rp["level"], rp["requests"], rp["exit"], rp["stderr"] = "cli", logURLs(log), r.Exit, short(r.Stderr, 300)
		if r.TimedOut {
			c.Inconclusive("watchdog on an Atlas CLI run")
			return
		}
		if len(log) == 0 {
			c.Violation("no-request-recorded", fmt.Sprintf("%s: the CLI run reached the fake endpoint with no request (exit %d): %s", cf.name, r.Exit, short(r.Stderr, 200)), rp)
			return
		}
		for _, t := range srv.Connects() {
			if t != "cloud.mongodb.com:443" {
				c.Violation("foreign-endpoint", fmt.Sprintf("%s: CONNECT to %s (only the Atlas API endpoint may be contacted)", cf.name, t), rp)
			}
		}
		if p := srv.PlainProxyRequests(); len(p) > 0 {
			c.Violation("foreign-endpoint", fmt.Sprintf("%s: plain-HTTP request through the proxy: %v", cf.name, p), rp)
		}
		for _, q := range log {
			if q.Host != "cloud.mongodb.com" {
				c.Violation("foreign-endpoint", fmt.Sprintf("%s: request with Host %q", cf.name, q.Host), rp)
			}
		}
		if cf.srv {
			if r.Exit == 0 || len(log) > 2 {
				c.Violation("srv-scheme-not-failed-cleanly", fmt.Sprintf("SRV connection string without DNS: exit %d, %d requests", r.Exit, len(log)), rp)
			}
			return
		}
		if r.Exit != 0 {
			c.Violation("atlas-run-failed|cli", fmt.Sprintf("%s: exit %d against a well-behaved endpoint: %s", cf.name, r.Exit, short(r.Stderr, 300)), rp)
			return
		}
		// the window actually requested
		es, ee := S, E
		if S == 0 {
			// default: the last seven days, taken from the requests themselves and bracketed by wall clock
			for _, q := range log {
				if m := reWindow.FindStringSubmatch(q.RawQuery); m != nil {
					ee, _ = strconv.Atoi(m[1])
					es, _ = strconv.Atoi(m[2])
					break
				}
			}
			c.Count("default_windows_checked", 1)
			if ee-es != 604800 || es >= ee || int64(ee) < t0-5 || int64(ee) > t1+5 {
				c.Violation("default-window", fmt.Sprintf("%s: without window flags the request asks for startDate=%d endDate=%d (span %d s; run between %d and %d): not the last seven days", cf.name, es, ee, ee-es, t0, t1), rp)
			}
		}
		if why := checkRequestLog(log, expectedURLs(es, ee)); why != "" {
			c.Violation("request-log|cli|"+whyKind(why), fmt.Sprintf("%s: %s", cf.name, why), rp)
		} else if requestsInHostOrder(log, expectedURLs(es, ee)) {
			c.Count("cli_runs_whose_downloads_left_in_host_order(observed, not demanded)", 1)
		}
		// <out>.<i> == redaction of host i's log under the active flags
		for i := range names {
			got, err := os.ReadFile(fmt.Sprintf("%s.%d", outp, i))
			want, okw := expectRedaction(s, cf.flags, raws[i])
			c.Count("output_files_compared", 1)
			if err != nil || !okw || !bytes.Equal(got, want) {
				which := "other content"
				for j := range names {
					if w2, _ := expectRedaction(s, cf.flags, raws[j]); j != i && bytes.Equal(got, w2) && len(got) > 0 {
						which = fmt.Sprintf("the redaction of host %d (%s)", j, names[j])
					}
				}
				c.Violation("output-file-mismatch", fmt.Sprintf("%s: %s.%d (%d bytes, err %v) is not the redaction of host %d's log (%s, %d bytes expected): it holds %s", cf.name, filepath.Base(outp), i, len(got), err, i, names[i], len(want), which), rp)
			}
		}
		if b, err := os.ReadFile(fmt.Sprintf("%s.%d", outp, len(names))); err == nil && !bytes.HasPrefix(b, []byte(`{"stale":`)) {
			c.Violation("extra-output-file", fmt.Sprintf("%s: %s.%d exists although there are only %d hosts", cf.name, filepath.Base(outp), len(names), len(names)), rp)
		}
		if left := tmpLeft(dir); len(left) > 0 {
			c.Count("runs_with_temp_files_left(C17)", 1)
		}
		if ci < 3 {
			c.Sample(map[string]any{"configuration": cf.name, "hosts": cf.hosts, "requests": logURLs(log), "connect_targets": srv.Connects(), "exit": r.Exit})
		}
	})
	c16RefusedHost(s, c)
	// default window computed in-process
	recs, crashed, _, err := s.Agent([]sut.AgentCmd{{"op": "dates", "start": 0, "end": 0}, {"op": "dates", "start": 100, "end": 200}}, nil, 0)
	if err == nil && crashed < 0 && len(recs) == 2 {
		now := time.Now().Unix()
		st, _ := recs[0]["start"].(interface{ Int64() (int64, error) })
		en, _ := recs[0]["end"].(interface{ Int64() (int64, error) })
		if st != nil && en != nil {
			a, _ := st.Int64()
			b, _ := en.Int64()
			if b-a != 604800 || b < now-120 || b > now+5 {
				c.Violation("default-window|library", fmt.Sprintf("GetStartAndEndDates() with no dates = (%d, %d)", a, b), nil)
			}
		}
		if fmt.Sprint(recs[1]["start"]) != "100" || fmt.Sprint(recs[1]["end"]) != "200" {
			c.Violation("window-altered|library", fmt.Sprintf("GetStartAndEndDates() with (100,200) = (%v, %v)", recs[1]["start"], recs[1]["end"]), nil)
		}
	}
	raceVerdict(s, c)
	if c.Counter("cli_runs") < len(cfgs) || c.Counter("requests_logged") < 100 {
		c.Inconclusive("too few Atlas runs / requests")
	}
	c.Assume("SRV connection strings cannot be resolved in the sandbox: the run must fail cleanly with zero downloads")
	c.Assume("the fake endpoint stands in for https://cloud.mongodb.com through HTTPS_PROXY + SSL_CERT_FILE (CLI) and BaseURL (library); the empty <out> file the tool also creates is not judged")
	return c.Finish("cluster descriptions with 1–5 hosts (with / without ports, non-lexicographic order, IP literals, extra JSON members, SRV scheme) × per-host gzip payloads (empty, one line, multi-member, mixed line classes, large) × window flags {none, several explicit spans incl. 45 days and 1 s} × redaction flag sets; the request log of the fake endpoint (method, path, query, authorization, CONNECT target, order) is compared with the expected exchange, temp files with the served payloads (library), and <out>.<i> with the file-channel redaction of payload i (CLI)")
}

func whyKind(why string) string {
	switch {
	case strings.Contains(why, "extra request"):
		return "extra-requests"
	case strings.Contains(why, "never requested"), strings.Contains(why, "authenticated download(s) of"):
		return "missing-request"
	case strings.Contains(why, "unexpected request"), strings.Contains(why, "expected the first request"):
		return "wrong-request"
	}
	return "other"
}

// tzifWithRecentSwitch renders a version-1 TZif zone file whose last transition happened
// three days before now: from daylight time (UTC-4) back to standard time (UTC-5) when
// fallBack, the other way round otherwise. Handed to the tool through TZ=<absolute path>.
func tzifWithRecentSwitch(now int64, fallBack bool) []byte {
	be32 := func(v int64) []byte { return []byte{byte(v >> 24), byte(v >> 16), byte(v >> 8), byte(v)} }
	var b bytes.Buffer
	b.WriteString("TZif")
	b.WriteByte(0)
	b.Write(make([]byte, 15))
	// counts: isut, isstd, leap, time, type, char
	for _, n := range []int64{0, 0, 0, 3, 2, 8} {
		b.Write(be32(n))
	}
	day := int64(86400)
	trans := []int64{now - 400*day, now - 200*day, now - 3*day}
	idx := []byte{1, 0, 1} // std, dst, std
	if !fallBack {
		idx = []byte{0, 1, 0} // dst, std, dst
	}
	for _, t := range trans {
		b.Write(be32(t))
	}
	b.Write(idx)
	// type 0: UTC-4, dst, "VDT"; type 1: UTC-5, std, "VST"
	b.Write(be32(-4 * 3600))
	b.Write([]byte{1, 0})
	b.Write(be32(-5 * 3600))
	b.Write([]byte{0, 4})
	b.WriteString("VDT\x00VST\x00")
	return b.Bytes()
}

// c16RefusedHost: one member's download is refused (HTTP status) while the lookup and the other
// members succeed. Whatever the run then does, "<out>.<i> receives precisely the redaction of
// host i's log": a file <out>.<i> that exists holds (a prefix of) host i's redacted log and never
// another member's, and a run that reports success has produced every member's file completely.
func c16RefusedHost(s *sut.SUT, c *ev.Check) {
	type cse struct{ n, k, status int }
	var cases []cse
	for n := 2; n <= 4; n++ {
		for k := 0; k < n; k++ {
			for _, st := range []int{404, 409, 500, 503} {
				if (n+k+st)%2 == 0 || thorough(c) || k == 0 {
					cases = append(cases, cse{n, k, st})
				}
			}
			// transient faults (status < 0): the first authenticated download of host k breaks off (body cut half
			// way, reset before the headers, one 503), a repeated request would be served. Each host's log is
			// still downloaded at most once.
			// (a reset BEFORE any response byte is not among them: net/http itself re-sends an idempotent request
			// whose reused keep-alive connection turned out dead - the tool still performs one download)
			if k == n-1 && (n == 2 || thorough(c)) {
				// status -4: no fault at all, but host k's log arrives slowly (a healthy transfer that takes
				// 33 s in total): every per-host output is complete in the end
				cases = append(cases, cse{n, k, -4})
			}
			for _, st := range []int{-1, -3} {
				if (n+k+st)%2 == 0 || thorough(c) || k == n-1 {
					cases = append(cases, cse{n, k, st})
				}
			}
		}
	}
	parallelDo(len(cases), func(ci int) {
		cs := cases[ci]
		faultName := fmt.Sprintf("status-%d", cs.status)
		if cs.status < 0 {
			faultName = []string{"transient-cut", "transient-reset", "transient-503", "slow-33s"}[-cs.status-1]
		}
		cfg, _, raws, names := c17Build(c.Seed+16, ci*4, c17Case{cs.n, cs.k, faultName})
		srv, err := atlasfake.New(cfg)
		if err != nil {
			c.Inconclusive("fake endpoint: " + err.Error())
			return
		}
		defer srv.Close()
		dir := s.TempDir("c16r")
		defer os.RemoveAll(dir)
		outp := filepath.Join(dir, "out.log")
		flags := [][]string{nil, {"-n", "-w"}}[ci%2]
		env := append(atlasEnv(srv, dir), "ATLAS_PUBLIC_KEY="+atlasPub, "ATLAS_PRIVATE_KEY="+atlasPriv)
		args := append([]string{"redact", "--atlasProjectId", cfg.Project, "--atlasClusterName", cfg.Cluster, "-o", outp}, flags...)
		r := s.CLI(sut.Run{Args: args, Dir: dir, Env: env, Timeout: 6 * time.Minute})
		if r.TimedOut {
			c.Inconclusive("watchdog on an Atlas CLI run")
			return
		}
		label := fmt.Sprintf("%d hosts, download of host %d answered with HTTP %d", cs.n, cs.k, cs.status)
		if cs.status < 0 {
			label = fmt.Sprintf("%d hosts, first download of host %d fails (%s), a repeated one would succeed", cs.n, cs.k, faultName)
			c.Count("transient_fault_runs", 1)
			if cs.status == -4 {
				label = fmt.Sprintf("%d hosts, the log of host %d is delivered slowly (33 s for the body, no fault)", cs.n, cs.k)
				c.Count("slow_transfer_runs", 1)
			}
		}
		c.Count("refused_host_runs", 1)
		c.Eval("refused|" + label)
		rp := map[string]any{"kind": "atlas", "configuration": label, "exit": r.Exit, "stderr": short(r.Stderr, 300), "requests": logURLs(srv.Log())}
		if len(srv.Log()) == 0 {
			c.Violation("no-request-recorded", label+": the CLI never reached the fake endpoint", rp)
			return
		}
		// exactly one download per host entry: never a second authenticated request for one host's log
		// (a host named twice in the connection string has two entries)
		entries, authed := map[string]int{}, map[string]int{}
		for _, nm := range names {
			entries[nm]++
		}
		for _, rq := range srv.Log() {
			if strings.HasSuffix(rq.Path, "/logs/mongodb.gz") && strings.HasPrefix(rq.Authorization, "Digest ") {
				authed[rq.Path]++
			}
		}
		for pth, nreq := range authed {
			h := strings.TrimSuffix(pth, "/logs/mongodb.gz")
			host := h[strings.LastIndex(h, "/")+1:]
			if nreq > entries[host] {
				c.Violation("host-downloaded-again|refused-host", fmt.Sprintf("%s: %d authenticated downloads of %s for %d entr(y/ies) of that host in the connection string (exit %d)", label, nreq, pth, entries[host], r.Exit), rp)
				return
			}
		}
		complete := 0
		for i := range names {
			got, err := os.ReadFile(fmt.Sprintf("%s.%d", outp, i))
			if err != nil || len(got) == 0 {
				continue
			}
			want, okw := expectRedaction(s, flags, raws[i])
			if !okw {
				c.Inconclusive("reference redaction failed")
				return
			}
			if !bytes.HasPrefix(want, got) {
				which := "other content"
				for j := range names {
					if w2, _ := expectRedaction(s, flags, raws[j]); j != i && len(w2) > 0 && bytes.HasPrefix(w2, got) {
						which = fmt.Sprintf("the redaction of host %d (%s)", j, names[j])
					}
				}
				c.Violation("output-file-mismatch|refused-host", fmt.Sprintf("%s: %s.%d is not the redaction of host %d's log: it holds %s (exit %d)", label, filepath.Base(outp), i, i, which, r.Exit), rp)
				return
			}
			if bytes.Equal(want, got) {
				complete++
			}
		}
		if cs.status == -4 && (r.Exit != 0 || complete != len(names)) {
			c.Violation("slow-transfer-not-completed|refused-host", fmt.Sprintf("%s: exit %d, %d of %d per-host outputs complete", label, r.Exit, complete, len(names)), rp)
		}
		if r.Exit == 0 && complete != len(names) {
			c.Violation("success-with-missing-host|refused-host", fmt.Sprintf("%s: the run reports success but only %d of %d per-host outputs are complete", label, complete, len(names)), rp)
		}
	})
}
