package checks

import (
	"bytes"
	"fmt"
	"os"
	"path/filepath"
	"strings"
	"time"

	"verif/atlasfake"
	"verif/gen"
	"verif/sut"
)

// C17: raw downloaded logs never outlive the run. Exhaustive over host count
// n, failing host k and fault kind, at the library level (TMPDIR listing after
// DownloadClusterLogs returns / after DeleteClusterLogs) and through the CLI
// (TMPDIR listing after the process has exited with any status).

type c17Fault struct {
	name string
	lib  bool // applies at the library level too (download-side fault)
}

var c17Faults = []c17Fault{
	{"status-401", true}, {"status-404", true}, {"status-500", true}, {"reset-before-headers", true},
	{"cut-0", true}, {"cut-1", true}, {"cut-half", true}, {"cut-last", true},
	{"not-gzip", false}, {"over-long-line", false}, {"output-path-is-a-directory", false}, {"truncated-gzip", false},
}

// c17Case: n hosts, host k (0-based) is hit by the fault; k = -1 none, -2 the cluster lookup fails.
type c17Case struct {
	n, k  int
	fault string
}

// c17Build prepares the fake endpoint's configuration for a case and returns the served
// payloads (compressed and raw) per host.
func c17Build(seed int64, ci int, cs c17Case) (atlasfake.Config, [][]byte, [][]byte, []string) {
	gg := gen.New(seed*1709 + int64(ci))
	gg.LongMax, gg.MaxDepth = 80, 2
	var hosts, names []string
	payload := map[string][]byte{}
	faults := map[string]atlasfake.Fault{}
	var gzs, raws [][]byte
	for i := 0; i < cs.n; i++ {
		nm := fmt.Sprintf("c17-shard-00-%02d.abcde.mongodb.net", i)
		hp := nm + ":27017"
		switch ci % 4 {
		case 1: // names outside [A-Za-z0-9.-]
			nm = fmt.Sprintf("c17_shard_%02d", i)
			hp = nm + ":27017"
		case 2: // several members on one machine: the same host name on different ports
			nm = fmt.Sprintf("c17-multi-%02d.example.net", i/2)
			if cs.k >= 0 && cs.k/2 == i/2 {
				// the member hit by the fault keeps a machine of its own (the fake endpoint serves by host name)
				nm = fmt.Sprintf("c17-multi-%02d-%d.example.net", i/2, i)
			}
			hp = fmt.Sprintf("%s:%d", nm, 27017+i)
		case 3: // IPv6 literals
			nm = fmt.Sprintf("2001:db8::%x", i+1)
			hp = "[" + nm + "]:27017"
		}
		hosts = append(hosts, hp)
		names = append(names, nm)
		raw, z := atlasPayload(gg, i, 9, 1)
		if prev, dup := payload[nm]; dup {
			z = prev // the same host named twice serves the same log twice
			for pi := range names[:i] {
				if names[pi] == nm {
					raw = raws[pi]
				}
			}
		}
		if i == cs.k {
			switch cs.fault {
			case "not-gzip":
				z = []byte(strings.Repeat("this is not gzip, but it is raw log text with a SECRETRAWLINE\n", 20))
				raw = nil
			case "over-long-line":
				raw = []byte(`{"c":"COMMAND","ctx":"x"}` + "\n" + `{"c":"COMMAND","attr":{"x":"` + strings.Repeat("L", 70000) + `"}}` + "\n")
				z = gz(raw)
			case "truncated-gzip":
				z = z[:len(z)/2]
			}
		}
		payload[nm] = z
		gzs = append(gzs, z)
		raws = append(raws, raw)
		if i == cs.k {
			switch {
			case strings.HasPrefix(cs.fault, "status-"):
				var code int
				fmt.Sscanf(cs.fault, "status-%d", &code)
				faults[nm] = atlasfake.Fault{Kind: "status", Status: code}
			case cs.fault == "reset-before-headers":
				faults[nm] = atlasfake.Fault{Kind: "reset"}
			case cs.fault == "slow-33s":
				faults[nm] = atlasfake.Fault{Kind: "slow", CutAt: 33}
			case cs.fault == "transient-cut", cs.fault == "transient-reset", cs.fault == "transient-503":
				// only the first authenticated request misbehaves; a second one would be served
				faults[nm] = map[string]atlasfake.Fault{"transient-cut": {Kind: "cut", CutAt: len(z) / 2, Once: true}, "transient-reset": {Kind: "reset", Once: true}, "transient-503": {Kind: "status", Status: 503, Once: true}}[cs.fault]
			case strings.HasPrefix(cs.fault, "cut-"):
				at := map[string]int{"cut-0": 0, "cut-1": 1, "cut-half": len(z) / 2, "cut-last": len(z) - 1}[cs.fault]
				faults[nm] = atlasfake.Fault{Kind: "cut", CutAt: at}
			}
		}
	}
	cfg := atlasfake.Config{Project: fmt.Sprintf("6a%022d", ci), Cluster: fmt.Sprintf("C17x%d", ci), ConnStr: "mongodb://" + strings.Join(hosts, ",") + "/?replicaSet=rs", Payload: payload, Faults: faults, EchoBody: true}
	switch cs.fault {
	case "cluster-status-500":
		cfg.ClusterFault = atlasfake.Fault{Kind: "status", Status: 500}
	case "cluster-reset":
		cfg.ClusterFault = atlasfake.Fault{Kind: "reset"}
	case "cluster-garbage-json":
		cfg.ConnStr = "not a connection string"
	}
	return cfg, gzs, raws, names
}

func C17() int {
	s, c, g, ok := setup("C17", "fault_enumeration")
	if !ok {
		return c.Finish("build failed")
	}
	defer s.Close()
	g.LongMax, g.MaxDepth = 80, 2
	type cse = c17Case
	var cases []cse
	for n := 1; n <= 4; n++ {
		cases = append(cases, cse{n, -1, "none"})
		for k := 0; k < n; k++ {
			for _, f := range c17Faults {
				cases = append(cases, cse{n, k, f.name})
			}
		}
		cases = append(cases, cse{n, -2, "cluster-status-500"}, cse{n, -2, "cluster-reset"}, cse{n, -2, "cluster-garbage-json"})
		// the cluster name is a name, also when it holds a comma: "<existing cluster>,<no such cluster>" is one name
		// (of no cluster); whatever is done with it, nothing stays behind
		cases = append(cases, cse{n, -3, "cluster-name-with-comma"})
	}
	c.Set("cases", len(cases))
	build := func(ci int, cs cse) (atlasfake.Config, [][]byte, []string) {
		cfg, gzs, _, names := c17Build(c.Seed, ci, cs)
		return cfg, gzs, names
	}
	isLib := func(f string) bool {
		for _, x := range c17Faults {
			if x.name == f {
				return x.lib
			}
		}
		return true
	}

	parallelDo(len(cases), func(ci int) {
		cs := cases[ci]
		label := fmt.Sprintf("n=%d k=%d %s", cs.n, cs.k+1, cs.fault)
		if cs.k < 0 {
			label = fmt.Sprintf("n=%d %s", cs.n, cs.fault)
		}
		// ---------------- library level
		if isLib(cs.fault) || cs.k < 0 {
			cfg, _, _ := build(ci, cs)
			srv, err := atlasfake.New(cfg)
			if err != nil {
				c.Inconclusive("fake endpoint: " + err.Error())
				return
			}
			recs, crashed, res, aerr := s.Agent([]sut.AgentCmd{
				{"op": "tmpdir_spell", "kind": c17TmpSpellings[(ci/2)%len(c17TmpSpellings)]},
				{"op": "tmpdir_list"},
				{"op": "atlas_download", "n": 1, "base_url": srv.URL(), "pub": atlasPub, "priv": atlasPriv, "project": cfg.Project, "cluster": c17ClusterArg(cs, cfg), "start": c17Window(ci)[0], "end": c17Window(ci)[1]},
			}, nil, 3*time.Minute)
			nreq := len(srv.Log())
			srv.Close()
			if aerr != nil || crashed >= 0 || len(recs) != 3 {
				c.Inconclusive("agent failed: " + short(res.Stderr, 200))
			} else {
				c.Count("library_cases", 1)
				c.Count("requests_logged", nreq)
				c.Eval("lib|" + label)
				recs = recs[1:]
				before, _ := recs[0]["names"].([]any)
				after, _ := recs[1]["tmp_after_return"].([]any)
				afterDel, _ := recs[1]["tmp_after_delete"].([]any)
				files, _ := recs[1]["files"].([]any)
				derr := recs[1]["err"]
				rp := map[string]any{"kind": "atlas-fault", "level": "library", "case": label, "returned_error": derr, "tmpdir_after_return": after, "tmpdir_after_delete": afterDel}
				if len(before) != 0 {
					c.Inconclusive("agent TMPDIR not empty at start")
				}
				if cs.fault != "none" && derr == nil {
					c.Count("library_faults_not_reported", 1) // C16/C08 territory; C17 only cares about what is left
				}
				if derr != nil {
					if len(after) != 0 {
						c.Violation("temp-file-left-after-error|library|"+cs.fault, fmt.Sprintf("%s: DownloadClusterLogs returned an error (%v) but %d file(s) remain in the temporary directory: %v", label, trunc(fmt.Sprint(derr), 120), len(after), after), rp)
					}
				} else if len(after) != len(files) {
					// success: exactly the returned files may exist (wherever below the temporary directory the
					// tool keeps them), they are the caller's to delete
					c.Violation("unregistered-temp-file|library", fmt.Sprintf("%s: %d files returned but %d entries in the temporary directory: %v", label, len(files), len(after), after), rp)
				}
				if len(afterDel) != 0 {
					c.Violation("temp-file-left-after-delete|library", fmt.Sprintf("%s: after DeleteClusterLogs %d entries remain in the temporary directory: %v (delete error: %v)", label, len(afterDel), afterDel, recs[1]["delete_err"]), rp)
				}
				if ci%37 == 0 {
					c.Sample(map[string]any{"level": "library", "case": label, "returned_error": trunc(fmt.Sprint(derr), 160), "tmpdir_after_return": after, "tmpdir_after_delete": afterDel})
				}
			}
		}

		// ---------------- CLI level
		cfg, _, _ := build(ci, cs)
		srv, err := atlasfake.New(cfg)
		if err != nil {
			c.Inconclusive("fake endpoint: " + err.Error())
			return
		}
		defer srv.Close()
		dir := s.TempDir("c17")
		defer os.RemoveAll(dir)
		outp := filepath.Join(dir, "out.log")
		if cs.fault == "output-path-is-a-directory" {
			os.MkdirAll(fmt.Sprintf("%s.%d", outp, cs.k), 0o755)
		}
		env := append(atlasEnv(srv, dir), "ATLAS_PUBLIC_KEY="+atlasPub, "ATLAS_PRIVATE_KEY="+atlasPriv)
		spell := c17TmpSpellings[ci%len(c17TmpSpellings)]
		env = append(env, "TMPDIR="+c17SpellTmp(dir, spell))
		c.Count("cli_tmpdir_spelling:"+spell, 1)
		cliArgs := []string{"redact", "--atlasProjectId", cfg.Project, "--atlasClusterName", c17ClusterArg(cs, cfg), "-o", outp}
		if w := c17Window(ci / 2); ci%2 == 1 {
			cliArgs = append(cliArgs, fmt.Sprintf("--atlasLogStartDate=%d", w[0]), fmt.Sprintf("--atlasLogEndDate=%d", w[1]))
		}
		r := s.CLI(sut.Run{Args: cliArgs, Dir: dir, Env: env, Timeout: 3 * time.Minute})
		if r.TimedOut {
			c.Inconclusive("watchdog on an Atlas CLI run")
			return
		}
		left := tmpLeft(dir)
		c.Count("cli_cases", 1)
		c.Count("requests_logged", len(srv.Log()))
		c.Eval("cli|" + label)
		rp := map[string]any{"kind": "atlas-fault", "level": "cli", "case": label, "tmpdir_spelling": spell, "exit": r.Exit, "stderr": short(bytes.TrimSpace(r.Stderr), 300), "left_in_tmpdir": left}
		if len(srv.Log()) == 0 {
			c.Violation("no-request-recorded", label+": the CLI never reached the fake endpoint: "+short(r.Stderr, 200), rp)
			return
		}
		if len(left) > 0 {
			c.Violation("temp-file-left-after-exit|cli|"+cs.fault, fmt.Sprintf("%s: the process exited with status %d and left %d downloaded log file(s) in the temporary directory: %v", label, r.Exit, len(left), left), rp)
		}
		if cs.fault != "none" && r.Exit == 0 {
			c.Count("cli_faults_with_exit_0", 1)
		}
		if cs.fault == "none" && r.Exit != 0 {
			c.Violation("atlas-run-failed", label+": fault-free run failed: "+short(r.Stderr, 200), rp)
		}
		if ci%41 == 0 {
			c.Sample(map[string]any{"level": "cli", "case": label, "exit": r.Exit, "left_in_tmpdir": left, "stderr": short(bytes.TrimSpace(r.Stderr), 160)})
		}
	})
	c.Set("fault_kinds", func() []string {
		var n []string
		for _, f := range c17Faults {
			n = append(n, f.name)
		}
		return append(n, "cluster-status-500", "cluster-reset", "cluster-garbage-json", "none")
	}())
	raceVerdict(s, c)
	if c.Counter("cli_cases") < len(cases) {
		c.Inconclusive("not every case was run through the CLI")
	}
	c.Assume("the library contract: on success the returned files belong to the caller (DeleteClusterLogs); on error nothing may remain")
	return c.Finish("exhaustive: host counts 1–4 × failing host k × fault kind {HTTP 401/404/500, reset before headers, body cut after 0 / 1 / half / len−1 bytes, payload that is not gzip, truncated gzip, gzip with an over-long line, <out>.<k> is a directory} plus cluster-lookup failures and the all-succeed case; library level (DownloadClusterLogs through the agent, TMPDIR listing when it returns) and CLI level through the CONNECT proxy (TMPDIR listing after exit, any status)")
}

// c17Window: the requested window, including epochs before 1970 (a negative number is a legal value
// of the date flags and becomes part of the temporary file's name)
func c17Window(i int) [2]int {
	return [][2]int{{1748000000, 1748604800}, {-3600, 3600}, {1, 2}, {-86400, -1}}[i%4]
}

// the temporary directory may be spelled in ways that are not in cleaned form (a trailing slash is
// the macOS default shape); cleanup must not depend on the spelling
var c17TmpSpellings = []string{"plain", "trailing-slash", "dot-segment", "double-slash", "symlink"}

func c17SpellTmp(dir, kind string) string {
	tmp := filepath.Join(dir, "tmp")
	os.MkdirAll(tmp, 0o755)
	switch kind {
	case "trailing-slash":
		return tmp + "/"
	case "dot-segment":
		return dir + "/./tmp"
	case "double-slash":
		return dir + "//tmp"
	case "symlink":
		l := filepath.Join(dir, "tmplink")
		os.Symlink(tmp, l)
		return l
	}
	return tmp
}

// c17ClusterArg is the cluster name handed to the tool: the configured cluster, or for the comma case
// that name followed by ",<a cluster that does not exist>".
func c17ClusterArg(cs c17Case, cfg atlasfake.Config) string {
	if cs.fault == "cluster-name-with-comma" {
		return cfg.Cluster + ",nosuchcluster" + cfg.Cluster[len(cfg.Cluster)-1:]
	}
	return cfg.Cluster
}
