// Package checks holds one monitor per property plus the shared corpus
// runner. All oracles live here, in the driver; the system under test is only
// ever observed through its real input/output boundary.
package checks

import (
	"bytes"
	"encoding/base64"
	"fmt"
	"os"
	"path/filepath"
	"regexp"
	"runtime"
	"sort"
	"strconv"
	"strings"
	"sync"
	"time"

	"verif/ev"
	"verif/gen"
	"verif/jt"
	"verif/sut"
)

// Flags is one configuration of the redact command's value-redaction flags.
type Flags struct {
	N, B, I, W bool
	R          *string  // --replacement (nil = default "REDACTED")
	F          string   // --redactFieldNames prefix ("" = off)
	FMore      []string // further --redactFieldNames values (the flag may be repeated); given around F
	Z          string   // --redactFieldsRegexp ("" = off)
	Enc        bool
}

func (f Flags) Replacement() string {
	if f.R != nil {
		return *f.R
	}
	return "REDACTED"
}

func (f Flags) String() string {
	var p []string
	if f.N {
		p = append(p, "-n")
	}
	if f.B {
		p = append(p, "-b")
	}
	if f.I {
		p = append(p, "-i")
	}
	if f.W {
		p = append(p, "-w")
	}
	if f.R != nil {
		p = append(p, "-r="+strconv.Quote(*f.R))
	}
	if f.F != "" {
		p = append(p, "-f="+f.F)
	}
	for _, m := range f.FMore {
		p = append(p, "-f="+m)
	}
	if f.Z != "" {
		p = append(p, "-z="+f.Z)
	}
	if f.Enc {
		p = append(p, "--encrypt")
	}
	if len(p) == 0 {
		return "(none)"
	}
	return strings.Join(p, " ")
}

// Args renders the flags for the CLI, alternating long and short spellings by
// variant so both are exercised (flag wiring is part of what is observed).
func (f Flags) Args(variant int, keyFile string) []string {
	long := variant%2 == 1
	var a []string
	add := func(s, l string, v ...string) {
		if long {
			a = append(a, "--"+l)
		} else {
			a = append(a, "-"+s)
		}
		a = append(a, v...)
	}
	if f.N {
		add("n", "redactNumbers")
	}
	if f.B {
		add("b", "redactBooleans")
	}
	if f.I {
		add("i", "redactIPs")
	}
	if f.W {
		add("w", "redactNamespaces")
	}
	if f.R != nil {
		if long {
			a = append(a, "--replacement="+*f.R)
		} else {
			a = append(a, "-r", *f.R)
		}
	}
	for i, m := range f.FMore {
		if i%2 == 0 {
			add("f", "redactFieldNames", m)
		}
	}
	if f.F != "" {
		add("f", "redactFieldNames", f.F)
	}
	for i, m := range f.FMore {
		if i%2 == 1 {
			add("f", "redactFieldNames", m)
		}
	}
	if f.Z != "" {
		add("z", "redactFieldsRegexp", f.Z)
	}
	if f.Enc {
		add("y", "encrypt")
		add("q", "encryptionKeyFile", keyFile)
	}
	return a
}

func sp(s string) *string { return &s }

// QuickFlagSets: a covering array over -n -b -i -w -r -f --encrypt — the empty
// set, everything on, each flag alone, and pairwise mixes.
func FlagSets(tier string, withF, withEnc bool) []Flags {
	var fs []Flags
	if tier == "thorough" {
		reps := []*string{nil, sp("[x]")}
		for m := 0; m < 128; m++ {
			f := Flags{N: m&1 != 0, B: m&2 != 0, I: m&4 != 0, W: m&8 != 0}
			if m&16 != 0 {
				f.R = reps[1]
			}
			if m&32 != 0 {
				f.F = "db"
			}
			f.Enc = m&64 != 0
			if (f.F != "" && !withF) || (f.Enc && !withEnc) {
				continue
			}
			fs = append(fs, f)
		}
		return fs
	}
	fs = []Flags{
		{},
		{N: true, B: true, I: true, W: true, R: sp("[x]")},
		{N: true}, {B: true}, {I: true}, {W: true}, {R: sp("")},
		{N: true, B: true},
		{N: true, W: true, R: sp("Ω\"r\\")},
		{B: true, I: true, W: true},
	}
	if withF {
		fs = append(fs, Flags{F: "db"}, Flags{F: "db", N: true, B: true, I: true, W: true}, Flags{F: "db", R: sp("zz")})
	}
	if withEnc {
		fs = append(fs, Flags{Enc: true}, Flags{Enc: true, N: true, B: true, W: true, R: sp("[x]")}, Flags{Enc: true, I: true})
		if withF {
			fs = append(fs, Flags{Enc: true, F: "db", N: true})
		}
	}
	return fs
}

// ---------------------------------------------------------------- runner

type LineOut struct {
	Out     []byte // nil: the line produced no output line
	Crash   string // non-empty: the process died on this line (stderr tail)
	Exit    int
	Timeout bool
}

var keyMu sync.Mutex

// RunLines feeds lines (each a complete JSON object, no newline inside) to
// the CLI in one batch under the given flags and returns one LineOut per
// input line. When the batch does not yield exactly one output line per
// input line, or the process fails, every line is re-run on its own so the
// failure is attributed to the line that causes it.
func RunLines(s *sut.SUT, f Flags, variant int, lines [][]byte) []LineOut {
	outs, ok := runBatch(s, f, variant, lines)
	if ok {
		return outs
	}
	if len(lines) == 1 {
		return outs
	}
	// attribute: halve until single lines
	res := make([]LineOut, len(lines))
	mid := len(lines) / 2
	var wg sync.WaitGroup
	wg.Add(2)
	go func() { defer wg.Done(); copy(res[:mid], RunLines(s, f, variant, lines[:mid])) }()
	go func() { defer wg.Done(); copy(res[mid:], RunLines(s, f, variant, lines[mid:])) }()
	wg.Wait()
	// every line is fine on its own but the batch was not: the outcome depends on
	// the context a line sits in. That must not be papered over by the bisection.
	allFine := true
	for _, r := range res {
		if r.Out == nil || r.Crash != "" || r.Timeout {
			allFine = false
		}
	}
	if allFine && !batchTimedOut(s, f, variant, lines, outs) {
		anomalyMu.Lock()
		if len(batchAnomalies) < 5 && (len(lines) <= 4 || len(batchAnomalies) == 0) {
			var in strings.Builder
			for i, l := range lines {
				if i >= 12 {
					fmt.Fprintf(&in, "… (%d more lines)\n", len(lines)-i)
					break
				}
				in.Write(l)
				in.WriteByte('\n')
			}
			batchAnomalies = append(batchAnomalies, batchAnomaly{f, in.String(), fmt.Sprintf("each of %d lines produces its output line when processed in smaller pieces, but the %d-line file as a whole does not (it yielded %d lines / a failure)", len(lines), len(lines), countOuts(outs))})
		}
		anomalyMu.Unlock()
	}
	return res
}

// batchTimedOut: a batch whose process was stopped by the watchdog (even after the retry) carries
// no verdict about context dependence.
func batchTimedOut(_ *sut.SUT, _ Flags, _ int, _ [][]byte, outs []LineOut) bool {
	return len(outs) > 0 && outs[0].Timeout
}

type batchAnomaly struct {
	Flags Flags
	Input string
	What  string
}

var (
	anomalyMu       sync.Mutex
	batchAnomalies  []batchAnomaly
	watchdogRetries int
	watchdogBatches int
)

func countOuts(o []LineOut) int {
	n := 0
	for _, x := range o {
		if x.Out != nil {
			n++
		}
	}
	return n
}

// reportBatchAnomalies turns context-dependent batch outcomes into violations
// of the calling check (a line that is accepted alone must be accepted inside
// a log as well; C06 states that in general, every line-level monitor relies on it).
func reportBatchAnomalies(c *ev.Check) {
	anomalyMu.Lock()
	defer anomalyMu.Unlock()
	for _, a := range batchAnomalies {
		c.Violation("context-dependent-outcome", fmt.Sprintf("%s (flags %s)", a.What, a.Flags), map[string]any{"kind": "sequence", "flags": a.Flags.Args(0, "KEYFILE"), "input": a.Input})
	}
	c.Set("batches_whose_outcome_depended_on_context", len(batchAnomalies))
	c.Set("batches_retried_after_a_watchdog_firing", watchdogRetries)
	if watchdogBatches > 0 {
		c.Inconclusive(fmt.Sprintf("the wall-clock watchdog stopped %d batch runs twice (machine overloaded?)", watchdogBatches))
	}
	wholeMu.Lock()
	defer wholeMu.Unlock()
	for _, a := range contextDiffs {
		c.Violation("context-dependent-output", fmt.Sprintf("%s (flags %s)", a.What, a.Flags), map[string]any{"kind": "sequence", "flags": a.Flags.Args(0, "KEYFILE"), "input": a.Input})
	}
	c.Set("whole_corpus_single_process_lines", wholeLines)
	residueMu.Lock()
	c.Set("placeholder_runs_in_a_directory_with_key_file_residue", residueRuns)
	residueMu.Unlock()
	c.Set("lines_whose_output_depended_on_context", contextDiffN)
}

var (
	residueMu   sync.Mutex
	residueRuns = map[string]int{}
)

func runBatch(s *sut.SUT, f Flags, variant int, lines [][]byte) ([]LineOut, bool) {
	dir := s.TempDir("batch")
	defer os.RemoveAll(dir)
	in := filepath.Join(dir, "in.log")
	var buf bytes.Buffer
	for _, l := range lines {
		buf.Write(l)
		buf.WriteByte('\n')
	}
	os.WriteFile(in, buf.Bytes(), 0o644)
	args := []string{"redact"}
	key := filepath.Join(dir, "k.key")
	if f.Enc {
		os.WriteFile(key, []byte(TestKeyB64), 0o600)
	}
	fa := f.Args(variant, key)
	if !f.Enc {
		// residue of earlier work in the same directory: a key file at the default
		// path (what a previous `--encrypt` job leaves behind), or one named with
		// -q although this job does not encrypt. Neither may change a placeholder run.
		switch variant % 4 {
		case 1:
			os.WriteFile(filepath.Join(dir, "anonymongo.enc.key"), []byte(TestKeyB64), 0o600)
			residueMu.Lock()
			residueRuns["default-key-file-present"]++
			residueMu.Unlock()
		case 3:
			os.WriteFile(key, []byte(TestKeyB64), 0o600)
			fa = append(fa, "-q", key)
			residueMu.Lock()
			residueRuns["-q-without---encrypt"]++
			residueMu.Unlock()
		}
	}
	useOut := f.Enc || variant%3 == 2
	outp := filepath.Join(dir, "out.log")
	if variant%2 == 0 {
		args = append(args, fa...)
		args = append(args, in)
	} else {
		args = append(args, in)
		args = append(args, fa...)
	}
	if useOut {
		args = append(args, "-o", outp)
	}
	if f.Z != "" && !strings.ContainsAny(f.Z, "/\x00") && len(f.Z) < 200 && variant%3 != 1 {
		// the working directory may hold anything, also a file that happens to be named like the pattern text
		os.WriteFile(filepath.Join(dir, f.Z), []byte("tok_live_51Hq8\n# not a pattern\n^nomatchatall$\n"), 0o644)
	}
	var env []string
	if variant%5 == 2 {
		// what an image, a compose file or a CI job may have exported: variables named after the switches,
		// saying the opposite of the command line. The command line is what the properties quantify over.
		env = hostileEnv(f)
		residueMu.Lock()
		residueRuns["environment-contradicting-the-flags"]++
		residueMu.Unlock()
	}
	r := s.CLI(sut.Run{Args: args, Dir: dir, Env: env})
	if r.TimedOut {
		// the wall-clock watchdog says nothing about the program on a loaded machine: one more
		// attempt with a very generous limit; a second firing makes the check inconclusive
		os.Remove(outp)
		r = s.CLI(sut.Run{Args: args, Dir: dir, Env: env, Timeout: 20 * time.Minute})
		anomalyMu.Lock()
		watchdogRetries++
		if r.TimedOut {
			watchdogBatches++
		}
		anomalyMu.Unlock()
	}
	var out []byte
	if useOut {
		out, _ = os.ReadFile(outp)
	} else {
		out = r.Stdout
	}
	res := make([]LineOut, len(lines))
	got := splitLines(out)
	if r.Exit == 0 && !r.TimedOut && !sut.Crashed(r.Stderr) && len(got) == len(lines) {
		for i := range got {
			res[i].Out = got[i]
		}
		return res, true
	}
	if len(lines) == 1 {
		res[0].Exit = r.Exit
		res[0].Timeout = r.TimedOut
		if len(got) >= 1 {
			res[0].Out = got[0]
		}
		if len(got) > 1 {
			res[0].Crash = fmt.Sprintf("one input line produced %d output lines", len(got))
		}
		if r.Exit != 0 || sut.Crashed(r.Stderr) {
			t := r.Stderr
			if len(t) > 600 {
				t = t[:600]
			}
			res[0].Crash = fmt.Sprintf("exit %d %s: %s", r.Exit, r.Signal, t)
		}
		return res, true
	}
	res[0].Timeout = r.TimedOut
	return res, false
}

// hostileEnv returns ANONYMONGO_* variables, in the spellings a maintainer would plausibly pick, that
// contradict every switch GIVEN on the command line (a switch that is not given is left alone: presetting
// it from the environment would be a feature, not a violation).
func hostileEnv(f Flags) []string {
	var env []string
	set := func(flag, val string) {
		up := strings.ToUpper(flag)
		var snake []byte
		for i := 0; i < len(flag); i++ {
			ch := flag[i]
			if ch >= 'A' && ch <= 'Z' && i > 0 {
				snake = append(snake, '_')
			}
			snake = append(snake, ch)
		}
		env = append(env, "ANONYMONGO_"+up+"="+val, "ANONYMONGO_"+strings.ToUpper(string(snake))+"="+val)
	}
	if f.N {
		set("redactNumbers", "false")
	}
	if f.B {
		set("redactBooleans", "0")
	}
	if f.I {
		set("redactIPs", "false")
		set("redactIps", "false")
	}
	if f.W {
		set("redactNamespaces", "false")
	}
	if f.R != nil {
		set("replacement", "from-the-environment")
	}
	if f.F != "" {
		set("redactFieldNames", "otherdb.othercoll")
	}
	if f.Z != "" {
		set("redactFieldsRegexp", "^nomatchatall$")
	}
	if f.Enc {
		set("encrypt", "false")
	}
	return append(env, "ANONYMONGO_VERSION=9.9.9-env")
}

func splitLines(b []byte) [][]byte {
	var out [][]byte
	for len(b) > 0 {
		i := bytes.IndexByte(b, '\n')
		if i < 0 {
			out = append(out, b)
			break
		}
		out = append(out, b[:i])
		b = b[i+1:]
	}
	return out
}

// TestKeyB64 is a fixed 64-byte key (base64) used wherever the key itself is
// not the subject of the property.
var TestKeyB64 = base64.StdEncoding.EncodeToString([]byte("0123456789abcdef0123456789abcdef0123456789abcdef0123456789abcdef"))

// parallelDo runs f(i) for i in [0,n) on all cores.
func parallelDo(n int, f func(i int)) { parallelDoN(runtime.NumCPU(), n, f) }

// parallelDoN: at most w workers (for jobs that hold a lot of memory each).
func parallelDoN(w, n int, f func(i int)) {
	if w > n {
		w = n
	}
	var wg sync.WaitGroup
	ch := make(chan int)
	for k := 0; k < w; k++ {
		wg.Add(1)
		go func() {
			defer wg.Done()
			for i := range ch {
				f(i)
			}
		}()
	}
	for i := 0; i < n; i++ {
		ch <- i
	}
	close(ch)
	wg.Wait()
}

// ---------------------------------------------------------------- leak search

// Haystack is an output line prepared for "does not appear anywhere" tests:
// raw bytes, plus every decoded key and string, plus every number token.
type Haystack struct {
	Raw     []byte
	Tree    *jt.Node
	Strings []string
	Nums    []string
	all     string
}

func NewHaystack(raw []byte, tree *jt.Node) *Haystack {
	h := &Haystack{Raw: raw, Tree: tree}
	if tree != nil {
		tree.Walk(nil, func(_ []string, n *jt.Node) {
			switch n.K {
			case jt.Str:
				h.Strings = append(h.Strings, n.S)
			case jt.Num:
				h.Nums = append(h.Nums, n.S)
			case jt.Obj:
				h.Strings = append(h.Strings, n.Keys...)
			}
		})
	}
	h.all = strings.Join(h.Strings, "\x00")
	return h
}

// HasString reports whether secret occurs in the line: in the decoded
// contents of any key or string, or in the raw bytes in any JSON spelling.
func (h *Haystack) HasString(secret string) bool {
	if secret == "" {
		return false
	}
	if strings.Contains(h.all, secret) {
		return true
	}
	if bytes.Contains(h.Raw, []byte(secret)) {
		return true
	}
	for _, st := range []jt.Style{jt.Plain, jt.GoLike, jt.Unicode} {
		q := jt.QuoteString(secret, st)
		if bytes.Contains(h.Raw, []byte(q[1:len(q)-1])) {
			return true
		}
	}
	return false
}

// HasNumber reports whether the numeric literal text occurs as a number token
// or inside any string.
func (h *Haystack) HasNumber(raw string) bool {
	for _, n := range h.Nums {
		if n == raw {
			return true
		}
	}
	core := strings.TrimLeft(raw, "-")
	if len(core) < 7 {
		return false
	}
	// inside strings and keys the digits must stand on their own: a run of 7 digits in the middle of a
	// pseudonym's 16 hex digits or of a base64 ciphertext is a coincidence, not the number
	// (seen once: -6003959 against REDACTED_3e23e8160039594a, the pseudonym of the field "b")
	alnum := func(c byte) bool {
		return c >= '0' && c <= '9' || c >= 'a' && c <= 'z' || c >= 'A' && c <= 'Z' || c == '+' || c == '/'
	}
	for off := 0; ; {
		i := strings.Index(h.all[off:], core)
		if i < 0 {
			return false
		}
		i += off
		before := i == 0 || !alnum(h.all[i-1])
		after := i+len(core) == len(h.all) || !alnum(h.all[i+len(core)])
		if before && after {
			return true
		}
		off = i + 1
	}
}

// ---------------------------------------------------------------- tagged walk

// TObs is one aligned leaf/container with the effective (inherited) tag.
type TObs struct {
	Path     []string
	In, Out  *jt.Node
	Tag      *jt.Tag // effective tag (own or inherited), may be nil
	Own      bool    // tag is the node's own
	Mismatch string
	Parent   *jt.Node // input parent
}

// WalkTagged aligns in/out and reports every node with its effective tag.
// A structural mismatch stops descent below that node.
func WalkTagged(in, out *jt.Node, renamed bool, f func(o TObs)) {
	walkTagged(nil, in, out, nil, nil, renamed, f)
}

func walkTagged(path []string, in, out *jt.Node, inh *jt.Tag, parent *jt.Node, renamed bool, f func(o TObs)) {
	t, own := inh, false
	if in.T != nil {
		t, own = in.T, true
	}
	o := TObs{Path: path, In: in, Out: out, Tag: t, Own: own, Parent: parent}
	switch {
	case out == nil:
		o.Mismatch = "missing"
	case in.K != out.K:
		o.Mismatch = "kind"
	case in.K == jt.Obj && len(in.Keys) != len(out.Keys):
		o.Mismatch = "keys"
	case in.K == jt.Arr && len(in.Vals) != len(out.Vals):
		o.Mismatch = "length"
	case in.K == jt.Obj && !renamed:
		for i := range in.Keys {
			if in.Keys[i] != out.Keys[i] {
				o.Mismatch = "keys"
				break
			}
		}
	}
	f(o)
	if o.Mismatch != "" {
		return
	}
	switch in.K {
	case jt.Obj:
		for i, k := range in.Keys {
			walkTagged(append(path[:len(path):len(path)], k), in.Vals[i], out.Vals[i], t, in, renamed, f)
		}
	case jt.Arr:
		for i := range in.Vals {
			walkTagged(append(path[:len(path):len(path)], "["+strconv.Itoa(i)+"]"), in.Vals[i], out.Vals[i], t, in, renamed, f)
		}
	}
}

// opSig abstracts a path for signatures: array indices -> [], user field
// names (anything not starting with '$' and not a known structural key) -> F.
var structural = map[string]bool{}

func init() {
	for _, k := range strings.Fields(`t s c id ctx msg attr command originatingCommand cmd ns type filter query sort update updates q u deletes documents pipeline
		from let as into on whenMatched whenNotMatched coll db pipeline input pipelines if then else branches case default vars in cond initialValue regex options
		groupBy boundaries output near query maxDistance partitionBy sortBy window range bounds step unit field newRoot startWith restrictSearchWithMatch
		text phrase autocomplete wildcard equals value path compound must mustNot should filter embeddedDocument operator facet facets moreLikeThis like geoWithin circle center radius coordinates geoShape geometry span term queryString defaultPath
		index queryVector numCandidates limit size remote planSummary base64 subType pattern resumeAfter users user _data size origin pivot gt gte lt lte fuzzy count highlight
		required properties enum bsonType date format dateString find aggregate insert delete distinct key findAndModify getMore collection lsid multi upsert ordered new skip batchSize projection`) {
		structural[k] = true
	}
}

// opSig abstracts the position of an observation into a signature that names
// the defect site rather than the input: the carrier (command /
// originatingCommand / cmd) is dropped, the head of the path is kept up to and
// including the first operator and the structural key after it, and of the
// rest only the last two operator/structural keys are kept.
func opSig(path []string) string {
	if len(path) > 2 && path[0] == "attr" && (path[1] == "command" || path[1] == "originatingCommand" || path[1] == "cmd") {
		path = path[2:]
	}
	var el []string
	for _, p := range path {
		switch {
		case strings.HasPrefix(p, "["):
			if len(el) > 0 && !strings.HasSuffix(el[len(el)-1], "[]") {
				el[len(el)-1] += "[]"
			}
		case strings.HasPrefix(p, "$") || structural[p]:
			el = append(el, p)
		default:
			el = append(el, "F")
		}
	}
	head := len(el)
	for i, e := range el {
		if strings.HasPrefix(e, "$") {
			head = i + 1
			if head < len(el) && el[head] != "F" && el[head] != "F[]" && !strings.HasPrefix(el[head], "$") {
				head++
			}
			break
		}
	}
	out := append([]string{}, el[:head]...)
	var tail []string
	for i := len(el) - 1; i >= head && len(tail) < 2; i-- {
		if el[i] != "F" && el[i] != "F[]" {
			tail = append([]string{el[i]}, tail...)
		}
	}
	if len(tail) > 0 {
		out = append(out, "…")
		out = append(out, tail...)
	}
	return strings.Join(out, ">")
}

func fullSig(path []string) string {
	var sb strings.Builder
	for _, p := range path {
		switch {
		case strings.HasPrefix(p, "["):
			sb.WriteString("[]")
		case strings.HasPrefix(p, "$") || structural[p]:
			sb.WriteString(">" + p)
		default:
			sb.WriteString(">F")
		}
	}
	return sb.String()
}

// ---------------------------------------------------------------- class validators

var (
	reOID   = regexp.MustCompile(`^[0-9a-f]{24}$`)
	reEmail = regexp.MustCompile(`^[A-Za-z0-9._%+-]+@[A-Za-z0-9-]+(\.[A-Za-z0-9-]+)*\.[A-Za-z]{2,}$`)
)

func validDate(s string) bool {
	for _, l := range []string{time.RFC3339Nano, "2006-01-02T15:04:05.000Z07:00", "2006-01-02T15:04:05Z0700", "2006-01-02T15:04:05.000Z0700"} {
		if _, err := time.Parse(l, s); err == nil {
			return true
		}
	}
	return false
}

func validB64(s string) bool {
	_, err := base64.StdEncoding.Strict().DecodeString(s)
	return err == nil && s != ""
}

func isZeroNum(raw string) bool {
	v, err := strconv.ParseFloat(raw, 64)
	return err == nil && v == 0
}

// ---------------------------------------------------------------- helpers

func short(b []byte, n int) string {
	if len(b) > n {
		return string(b[:n]) + fmt.Sprintf("…(+%d bytes)", len(b)-n)
	}
	return string(b)
}

func sortedKeys[V any](m map[string]V) []string {
	ks := make([]string, 0, len(m))
	for k := range m {
		ks = append(ks, k)
	}
	sort.Strings(ks)
	return ks
}

// setup builds the SUT and the ev.Check for a property.
func setup(id, level string) (*sut.SUT, *ev.Check, *gen.Gen, bool) {
	c := ev.New(id, ev.Tier(), level, sut.VerifDir(), ev.Seed())
	s, err := sut.New()
	if err != nil {
		fmt.Println(err)
		c.Inconclusive("build failed: " + firstLine(err.Error()))
		return nil, c, nil, false
	}
	g := gen.New(c.Seed*1000003 + int64(len(id))*7919 + int64(id[len(id)-1]))
	return s, c, g, true
}

func firstLine(s string) string {
	if i := strings.IndexByte(s, '\n'); i >= 0 {
		return s[:i]
	}
	return s
}

func thorough(c *ev.Check) bool { return c.Tier == "thorough" }

func pickN(c *ev.Check, quick, thor int) int {
	if thorough(c) {
		return thor
	}
	return quick
}

var classMu sync.Mutex

// raceVerdict records how many race reports the race detector wrote during this check's runs
// (every binary is built with -race, GORACE=halt_on_error=0) and turns them into violations: a data
// race on the redaction state means the outputs observed are not the only ones this workload can
// produce, and every property here is claimed for every schedule. Deduplicated by the pair of
// racing functions, line numbers stripped.
func raceVerdict(s *sut.SUT, c *ev.Check) int {
	n := s.RaceReports()
	c.Set("race_reports", n)
	if n > 0 {
		for pair, report := range s.RacePairs() {
			c.Violation("data-race|"+pair, fmt.Sprintf("the race detector reported a data race during these runs (%d reports in all): %s", n, pair), map[string]any{"kind": "race-report", "report": report})
		}
	}
	return n
}
