package checks

import (
	"bytes"
	"encoding/base64"
	"fmt"
	"os"
	"os/exec"
	"path/filepath"
	"strings"
	"time"
	"verif/atlasfake"

	"verif/ev"
	"verif/jt"
	"verif/sut"
)

// C11: key-file lifecycle — create once, never overwrite, refuse unusable keys.
//
// Every initial state of the key path × every run sequence of length 1..3 is
// a real `redact --encrypt` process sequence in a private directory; the
// oracle is a small state machine over directory snapshots (bytes, mode),
// exit statuses and output files, plus the strace event order for "the key is
// stored before any ciphertext is written".

type c11Snap struct {
	kind   string // absent file dir symlink other
	bytes  []byte
	mode   os.FileMode
	target string
}

func c11Take(p string) c11Snap {
	li, err := os.Lstat(p)
	if err != nil {
		return c11Snap{kind: "absent"}
	}
	switch {
	case li.Mode()&os.ModeSymlink != 0:
		t, _ := os.Readlink(p)
		b, _ := os.ReadFile(p)
		return c11Snap{kind: "symlink", target: t, bytes: b}
	case li.IsDir():
		es, _ := os.ReadDir(p)
		var names []string
		for _, e := range es {
			names = append(names, e.Name())
		}
		return c11Snap{kind: "dir", bytes: []byte(strings.Join(names, ",")), mode: li.Mode().Perm()}
	case li.Mode().IsRegular():
		b, _ := os.ReadFile(p)
		return c11Snap{kind: "file", bytes: b, mode: li.Mode().Perm()}
	}
	return c11Snap{kind: "other"}
}

func (a c11Snap) same(b c11Snap) bool {
	return a.kind == b.kind && bytes.Equal(a.bytes, b.bytes) && a.mode == b.mode && a.target == b.target
}

func c11KeyOf(b []byte) ([]byte, bool) {
	k, err := base64.StdEncoding.DecodeString(strings.TrimRight(string(b), "\r\n"))
	return k, err == nil && len(k) == 64
}

type c11State struct {
	name  string
	class string // absent | valid | unusable | either (valid or unusable: both outcomes are consistent with the statement)
	prep  func(dir, kp string, key string)
}

func c11Line(secret string, n int) string {
	return fmt.Sprintf(`{"t":{"$date":"2025-01-01T00:00:00.000Z"},"s":"I","c":"COMMAND","id":51803,"ctx":"conn%d","msg":"Slow query","attr":{"type":"command","ns":"db.c","command":{"find":"c","filter":{"name":"%s","k":%d},"$db":"db"},"durationMillis":%d}}`, n, secret, n, 100+n)
}

func C11() int {
	s, c, _, ok := setup("C11", "fault_enumeration")
	if !ok {
		return c.Finish("build failed")
	}
	defer s.Close()
	validKey := TestKeyB64
	otherKey := b64(bytes.Repeat([]byte{7}, 64))
	wf := func(p, content string, mode os.FileMode) { os.WriteFile(p, []byte(content), mode); os.Chmod(p, mode) }
	states := []c11State{
		{"absent", "absent", func(dir, kp, key string) {}},
		{"valid", "valid", func(dir, kp, key string) { wf(kp, key, 0o600) }},
		{"valid-0644", "valid", func(dir, kp, key string) { wf(kp, key, 0o644) }},
		{"valid+LF", "either", func(dir, kp, key string) { wf(kp, key+"\n", 0o600) }},
		{"valid+CRLF", "either", func(dir, kp, key string) { wf(kp, key+"\r\n", 0o600) }},
		{"empty", "unusable", func(dir, kp, key string) { wf(kp, "", 0o600) }},
		{"short-63", "unusable", func(dir, kp, key string) { wf(kp, b64(bytes.Repeat([]byte{1}, 63)), 0o600) }},
		{"short-32", "unusable", func(dir, kp, key string) { wf(kp, b64(bytes.Repeat([]byte{1}, 32)), 0o600) }},
		{"long-65", "unusable", func(dir, kp, key string) { wf(kp, b64(bytes.Repeat([]byte{1}, 65)), 0o600) }},
		{"long-96", "unusable", func(dir, kp, key string) { wf(kp, b64(bytes.Repeat([]byte{1}, 96)), 0o600) }},
		{"long-128", "unusable", func(dir, kp, key string) { wf(kp, b64(bytes.Repeat([]byte{1}, 128)), 0o600) }},
		{"non-base64", "unusable", func(dir, kp, key string) { wf(kp, strings.Repeat("!*", 44), 0o600) }},
		{"valid-with-garbage-tail", "unusable", func(dir, kp, key string) { wf(kp, key+"!!!!", 0o600) }},
		{"url-safe-base64", "either", func(dir, kp, key string) {
			wf(kp, base64.URLEncoding.EncodeToString(bytes.Repeat([]byte{0xfb, 0xff}, 32)), 0o600)
		}},
		{"binary-64-raw-bytes", "unusable", func(dir, kp, key string) { wf(kp, string(bytes.Repeat([]byte{0xfb}, 64)), 0o600) }},
		{"empty-directory", "unusable", func(dir, kp, key string) { os.Mkdir(kp, 0o755) }},
		{"non-empty-directory", "unusable", func(dir, kp, key string) { os.Mkdir(kp, 0o755); wf(filepath.Join(kp, "x"), "x", 0o600) }},
		{"dangling-symlink", "either-absent", func(dir, kp, key string) { os.Symlink(filepath.Join(dir, "nowhere.key"), kp) }},
		{"symlink-to-valid", "valid", func(dir, kp, key string) {
			wf(filepath.Join(dir, "real.key"), key, 0o600)
			os.Symlink(filepath.Join(dir, "real.key"), kp)
		}},
		{"symlink-to-empty", "unusable", func(dir, kp, key string) {
			wf(filepath.Join(dir, "real.key"), "", 0o600)
			os.Symlink(filepath.Join(dir, "real.key"), kp)
		}},
		// what other tools or earlier runs left next to the key path: the new key file is owner-only all the same
		{"absent+stale-siblings(.tmp,~,.bak mode 0644)", "absent", func(dir, kp, key string) {
			for _, suf := range []string{".tmp", "~", ".bak", ".new", ".lock"} {
				wf(kp+suf, "stale "+suf, 0o644)
			}
			wf(filepath.Join(filepath.Dir(kp), "."+filepath.Base(kp)+".swp"), "stale swp", 0o666)
		}},
		// exists but is not a regular file: a character device (reads as empty) — directly and through a symlink
		{"dev-null", "unusable", func(dir, kp, key string) {}},
		{"symlink-to-dev-null", "unusable", func(dir, kp, key string) { os.Symlink("/dev/null", kp) }},
		// no path at all: --encrypt cannot store or load a key
		{"empty-key-path", "unusable", func(dir, kp, key string) {}},
		// the key path is also named as the output file: a valid key must survive byte for byte
		{"valid+also-the-output-path", "unusable", func(dir, kp, key string) { wf(kp, key, 0o600) }},
		// the output file reaches the key file under another name: a hard link, a symbolic link, another spelling of the path
		{"valid+output-is-a-hard-link-of-the-key", "unusable", func(dir, kp, key string) { wf(kp, key, 0o600); os.Link(kp, filepath.Join(dir, "alias.out")) }},
		{"valid+output-is-a-symlink-to-the-key", "unusable", func(dir, kp, key string) { wf(kp, key, 0o600); os.Symlink(kp, filepath.Join(dir, "alias.out")) }},
		{"valid+output-is-another-spelling-of-the-key-path", "unusable", func(dir, kp, key string) { wf(kp, key, 0o600); os.Mkdir(filepath.Join(dir, "sub"), 0o755) }},
		{"valid+output-through-a-symlinked-directory", "unusable", func(dir, kp, key string) { wf(kp, key, 0o600); os.Symlink(dir, filepath.Join(dir, "dirlink")) }},
		// ... and the key does not exist yet: no key can be stored where the output goes, so the run fails and leaves the path as it was
		{"absent+output-is-a-dangling-symlink-to-the-key-path", "either-absent", func(dir, kp, key string) { os.Symlink(kp, filepath.Join(dir, "alias.out")) }},
		{"absent+output-through-a-symlinked-directory", "either-absent", func(dir, kp, key string) { os.Symlink(dir, filepath.Join(dir, "dirlink")) }},
		{"parent-missing", "absent-unwritable", func(dir, kp, key string) {}},
		{"parent-is-a-file", "absent-unwritable", func(dir, kp, key string) {}},
	}
	straceOK := exec.Command("strace", "-o", "/dev/null", "true").Run() == nil
	c.Set("strace_available", straceOK)
	if straceOK {
		states = append(states, c11State{"unreadable(EACCES injected on openat)", "unusable", func(dir, kp, key string) { wf(kp, key, 0o600) }})
		// write-only for the invoking user (mode 0200 and no privilege to ignore it): the open for reading is refused,
		// an open for writing would succeed - EACCES injected on the FIRST openat of the key path only
		states = append(states, c11State{"unreadable-but-writable(EACCES injected on the first openat only)", "unusable", func(dir, kp, key string) { wf(kp, key, 0o600) }})
	}
	inputs := map[string][]string{}
	secretsOf := map[string][]string{}
	for _, nm := range []string{"A", "B"} {
		var ls, ss []string
		for i := 0; i < 40; i++ {
			sec := fmt.Sprintf("zqC11%s%dsecret", nm, i)
			ls = append(ls, c11Line(sec, i))
			ss = append(ss, sec)
		}
		inputs[nm], secretsOf[nm] = ls, ss
	}
	seqs := [][]string{{"A"}, {"A", "B"}, {"A", "B", "A"}, {"B", "B", "A"}}
	type job struct {
		st  c11State
		seq []string
	}
	var jobs []job
	for _, st := range states {
		for _, sq := range seqs {
			jobs = append(jobs, job{st, sq})
		}
	}
	var createdKeys = make(chan string, len(jobs)*3)
	parallelDo(len(jobs), func(ji int) {
		jb := jobs[ji]
		dir := s.TempDir("c11")
		defer os.RemoveAll(dir)
		// the key path is used exactly as given: names with '$', '~', blanks or non-ASCII are ordinary file names
		kname := []string{"enc.key", "tenant$A.key", "logs-${env}.key", "~enc.key", "enc key.key", "ké€y.key", "$HOME.key"}[ji%7]
		kp := filepath.Join(dir, kname)
		// the other redaction switches do not touch the key: --redactNamespaces / --redactFieldNames compute pseudonyms next to it
		extra := [][]string{nil, {"-w"}, {"-f", "db", "-n"}, {"-w", "-f", "db.c", "-i"}}[(ji/7+ji)%4]
		switch jb.st.name {
		case "parent-missing":
			kp = filepath.Join(dir, "nodir", "enc.key")
		case "parent-is-a-file":
			os.WriteFile(filepath.Join(dir, "plainfile"), []byte("x"), 0o644)
			kp = filepath.Join(dir, "plainfile", "enc.key")
		case "dev-null":
			kp = "/dev/null"
		case "empty-key-path":
			kp = ""
		}
		jb.st.prep(dir, kp, validKey)
		class := jb.st.class
		var K []byte // the key the path holds when class == valid
		if class == "valid" {
			K, _ = c11KeyOf([]byte(validKey))
		}
		firstOut := map[string][]byte{}
		label := jb.st.name + "|" + strings.Join(jb.seq, "")
		for ri, inName := range jb.seq {
			before := c11Take(kp)
			var realBefore c11Snap
			if before.kind == "symlink" {
				realBefore = c11Take(before.target)
			}
			inp := filepath.Join(dir, fmt.Sprintf("in%d.log", ri))
			outp := filepath.Join(dir, fmt.Sprintf("out%d.log", ri))
			keyIsOutput := jb.st.name == "valid+also-the-output-path"
			if keyIsOutput {
				outp = kp
			}
			switch {
			case strings.Contains(jb.st.name, "output-is-a-hard-link"), strings.Contains(jb.st.name, "symlink-to-the-key"):
				outp, keyIsOutput = filepath.Join(dir, "alias.out"), true
			case strings.Contains(jb.st.name, "another-spelling"):
				outp, keyIsOutput = dir+"/sub/..//./"+filepath.Base(kp), true
			case strings.Contains(jb.st.name, "through-a-symlinked-directory"):
				outp, keyIsOutput = filepath.Join(dir, "dirlink", filepath.Base(kp)), true
			}
			os.WriteFile(inp, []byte(strings.Join(inputs[inName], "\n")+"\n"), 0o644)
			run := sut.Run{Args: append(append([]string{"redact", "--encrypt", "-q", kp}, extra...), "-o", outp, inp), Dir: dir}
			stlog := filepath.Join(dir, fmt.Sprintf("strace%d.log", ri))
			useTrace := straceOK && (class == "absent" || strings.HasPrefix(jb.st.name, "unreadable"))
			if useTrace {
				run.Wrap = []string{"strace", "-f", "-y", "-s", "0", "-e", "trace=openat,write,close", "-o", stlog}
				if strings.HasPrefix(jb.st.name, "unreadable") {
					run.Wrap = []string{"strace", "-f", "-y", "-s", "0", "-P", kp, "-e", "trace=openat", "-e", "inject=openat:error=EACCES", "-o", stlog}
				}
				if strings.HasPrefix(jb.st.name, "unreadable-but-writable") {
					run.Wrap = []string{"strace", "-f", "-y", "-s", "0", "-P", kp, "-e", "trace=openat", "-e", "inject=openat:error=EACCES:when=1", "-o", stlog}
				}
			}
			r := s.CLI(run)
			if r.TimedOut {
				c.Inconclusive("watchdog")
				return
			}
			after := c11Take(kp)
			out, _ := os.ReadFile(outp)
			outLines := splitLines(out)
			if keyIsOutput {
				outLines = nil // the "output file" is the key file; what matters is that it is untouched
			}
			c.Count("runs", 1)
			c.Eval(fmt.Sprintf("%s|run%d", label, ri))
			if ri == len(jb.seq)-1 && len(jb.seq) == 3 {
				c.Sample(map[string]any{"initial_state": jb.st.name, "sequence": jb.seq, "run": ri + 1, "exit": r.Exit, "key_path_before": before.kind, "key_path_after": after.kind, "key_bytes_after": len(after.bytes), "mode_after": fmt.Sprintf("%04o", after.mode), "output_lines": len(outLines), "stderr": short(bytes.TrimSpace(r.Stderr), 120)})
			}
			viol := func(kind, what string) {
				c.Violation(kind+"|"+jb.st.name, fmt.Sprintf("state %q, run %d of %v: %s (exit %d, stderr: %s)", jb.st.name, ri+1, jb.seq, what, r.Exit, short(bytes.TrimSpace(r.Stderr), 160)),
					map[string]any{"state": jb.st.name, "sequence": jb.seq, "run": ri + 1})
			}
			decryptable := func(key []byte, keyPath string) {
				// three leaves per run through the real decrypt command
				if len(outLines) != len(inputs[inName]) {
					viol("output-incomplete", fmt.Sprintf("%d output lines for %d input lines", len(outLines), len(inputs[inName])))
					return
				}
				for _, li := range []int{0, len(outLines) / 2, len(outLines) - 1} {
					t, err := jt.ParseObject(outLines[li])
					if err != nil {
						viol("bad-json", "output line does not parse")
						return
					}
					var leaf *jt.Node // the first member of the filter (its key is renamed under -f)
					if f := t.Get("attr").Get("command").Get("filter"); f != nil && f.K == jt.Obj && len(f.Vals) > 0 {
						leaf = f.Vals[0]
					}
					if leaf == nil || leaf.K != jt.Str {
						viol("bad-output", "the filter's first member is missing in the output")
						return
					}
					if leaf.S == secretsOf[inName][li] {
						viol("plaintext-in-encrypt-mode", "the secret is emitted in clear")
						return
					}
					raw, has, dr := decryptCLI(s, dir, keyPath, leaf.S)
					c.Count("ciphertexts_decrypted_with_the_key_file", 1)
					if dr.Exit != 0 || !has || raw != secretsOf[inName][li] {
						viol("output-not-decryptable-with-key-file", fmt.Sprintf("the value emitted on line %d does not decrypt to the planted secret with the key file now at the path (decrypt exit %d, printed %q)", li, dr.Exit, trunc(raw, 40)))
						return
					}
				}
			}
			switch class {
			case "absent", "either-absent":
				if r.Exit != 0 && class == "either-absent" {
					if len(outLines) > 0 {
						viol("output-despite-failure", fmt.Sprintf("%d redacted lines emitted although the run failed", len(outLines)))
					}
					if !after.same(before) {
						viol("path-changed-on-failure", "the key path changed although the run failed")
					}
					continue
				}
				if r.Exit != 0 {
					viol("create-failed", "key path absent but the run failed")
					return
				}
				real := after
				if after.kind == "symlink" {
					real = c11Take(after.target)
				}
				k, okk := c11KeyOf(real.bytes)
				if real.kind != "file" || !okk {
					viol("no-valid-key-stored", fmt.Sprintf("after the run the key path holds %s of %d bytes, not base64 of 64 bytes", real.kind, len(real.bytes)))
					return
				}
				if real.mode&0o077 != 0 {
					viol("key-file-permissions", fmt.Sprintf("generated key file has mode %04o (group/other bits set)", real.mode))
				}
				if bytes.Equal(k, bytes.Repeat([]byte{0}, 64)) {
					viol("key-not-random", "generated key is all zero")
				}
				createdKeys <- string(k)
				decryptable(k, kp)
				if useTrace {
					c11Order(c, stlog, kp, outp, viol)
				}
				class, K = "valid", k
			case "valid", "either":
				if class == "either" && r.Exit != 0 {
					// treated as unusable: fine, as long as nothing was emitted or changed
					if len(outLines) > 0 {
						viol("output-despite-failure", fmt.Sprintf("%d redacted lines emitted although the run failed", len(outLines)))
					}
					if !after.same(before) {
						viol("path-changed-on-failure", "the key path changed although the run failed")
					}
					c.Count("either_state_rejected", 1)
					continue
				}
				if r.Exit != 0 {
					viol("valid-key-rejected", "valid key file but the run failed")
					return
				}
				if !after.same(before) {
					viol("key-file-touched", fmt.Sprintf("the key path changed (before: %s %d bytes mode %04o, after: %s %d bytes mode %04o)", before.kind, len(before.bytes), before.mode, after.kind, len(after.bytes), after.mode))
					return
				}
				if before.kind == "symlink" && !c11Take(before.target).same(realBefore) {
					viol("key-file-touched", "the symlink's target changed")
					return
				}
				if class == "either" {
					k, okk := c11KeyOf(before.bytes)
					if !okk {
						// e.g. URL-safe text that happens to be accepted: cannot decode here; only
						// check "untouched" (done) and that nothing leaks
						c.Count("either_state_accepted_undecodable_by_driver", 1)
						continue
					}
					K = k
				}
				decryptable(K, kp)
				// determinism with one key: same input => same bytes as the first time
				if prev, seen := firstOut[inName]; seen && !bytes.Equal(prev, out) {
					viol("output-differs-with-same-key", "re-running the same input with the unchanged key file gives different output")
				}
			case "unusable", "absent-unwritable":
				if r.Exit == 0 {
					viol("unusable-key-accepted", "the run reports success")
				}
				if len(outLines) > 0 {
					viol("output-despite-unusable-key", fmt.Sprintf("%d redacted lines emitted", len(outLines)))
				}
				if !after.same(before) {
					viol("unusable-key-overwritten", fmt.Sprintf("the key path changed (before: %s %d bytes, after: %s %d bytes)", before.kind, len(before.bytes), after.kind, len(after.bytes)))
				}
				if before.kind == "symlink" && !c11Take(before.target).same(realBefore) {
					viol("unusable-key-overwritten", "the symlink's target changed")
				}
				if len(bytes.TrimSpace(r.Stderr)) == 0 {
					c.Count("rejections_without_message", 1)
				}
			}
			if _, seen := firstOut[inName]; !seen {
				firstOut[inName] = out
			}
		}
	})
	close(createdKeys)
	seenK := map[string]bool{}
	for k := range createdKeys {
		if seenK[k] || k == string(mustKey(validKey)) || k == string(mustKey(otherKey)) {
			c.Violation("generated-key-repeats", "two runs that had to create a key file stored the same key", nil)
		}
		seenK[k] = true
	}
	c.Set("keys_created_by_the_cli", len(seenK))
	c.Set("initial_states", func() []string {
		var n []string
		for _, st := range states {
			n = append(n, st.name+" ["+st.class+"]")
		}
		return n
	}())
	c.Set("run_sequences", seqs)

	// GenerateKey: pairwise distinct, 64 bytes (in-process, two processes)
	ngen := pickN(c, 3000, 200000)
	all := map[string]bool{}
	for p := 0; p < 2; p++ {
		recs, crashed, res, err := s.Agent([]sut.AgentCmd{{"op": "genkey", "n": ngen / 2}}, nil, 0)
		if err != nil || crashed >= 0 || len(recs) != 1 {
			c.Inconclusive("agent genkey failed: " + short(res.Stderr, 200))
			break
		}
		for _, k := range strOuts(recs[0]) {
			raw, _ := base64.StdEncoding.DecodeString(k)
			c.Count("generated_keys_checked", 1)
			if len(raw) != 64 {
				c.Violation("generated-key-length", fmt.Sprintf("GenerateKey returned %d bytes", len(raw)), nil)
			}
			if all[k] {
				c.Violation("generated-key-repeats", "GenerateKey returned the same key twice", nil)
			}
			all[k] = true
		}
	}
	// key-file API round trip
	c11API(s, c)
	// runs that fail part-way through processing, after ciphertext has been written
	c11FailingRuns(s, c, validKey)
	// Atlas jobs accept --encrypt as well: the per-host outputs are <outputFile>.<i>
	c11AtlasRuns(s, c, validKey)
	raceVerdict(s, c)
	if c.Counter("runs") < len(jobs) {
		c.Inconclusive("not every state × sequence was run")
	}
	c.Assume("'valid with trailing newline / CRLF' and URL-safe text are states the statement does not assign: both 'used, untouched' and 'refused, untouched, nothing emitted' are accepted")
	c.Assume("the sandbox runs as root, so 'unreadable' is produced by strace-injected EACCES on openat of the key path (skipped when strace is unavailable)")
	return c.Finish("exhaustive: every initial key-path state × run sequences of length 1–3 (two inputs), one real CLI process per run in a private directory; state machine absent→valid(K fresh) / valid(K)→valid(K) / unusable→unusable+failure checked on directory snapshots (bytes, mode, symlink target), exit status, output file and decryptability of emitted values through the real decrypt command; strace order 'key file closed before first write to the output file'; GenerateKey distinctness in two processes")
}

func mustKey(b string) []byte { k, _ := base64.StdEncoding.DecodeString(b); return k }

// c11Order: in the strace log the key file must have been written and closed
// before the first write() to the output file.
func c11Order(c *ev.Check, stlog, kp, outp string, viol func(kind, what string)) {
	b, err := os.ReadFile(stlog)
	if err != nil {
		c.Count("strace_logs_missing", 1)
		return
	}
	keyWrite, keyClose, firstOut := -1, -1, -1
	for i, ln := range strings.Split(string(b), "\n") {
		switch {
		case strings.Contains(ln, "write(") && strings.Contains(ln, "<"+kp+">"):
			if keyWrite < 0 {
				keyWrite = i
			}
		case strings.Contains(ln, "close(") && strings.Contains(ln, "<"+kp+">") && keyWrite >= 0 && keyClose < 0:
			keyClose = i
		case strings.Contains(ln, "write(") && strings.Contains(ln, "<"+outp+">"):
			if firstOut < 0 {
				firstOut = i
			}
		}
	}
	c.Count("strace_orders_checked", 1)
	if firstOut < 0 || keyWrite < 0 {
		c.Count("strace_orders_without_both_events", 1)
		return
	}
	if keyClose < 0 || keyClose > firstOut {
		viol("ciphertext-before-key-stored", fmt.Sprintf("syscall order: first write to the output file is event %d, key file written at %d and closed at %d", firstOut, keyWrite, keyClose))
	}
}

func c11API(s *sut.SUT, c *ev.Check) {
	dir := s.TempDir("c11api")
	defer os.RemoveAll(dir)
	p := filepath.Join(dir, "api.key")
	k := b64(bytes.Repeat([]byte{0x5a}, 64))
	cmds := []sut.AgentCmd{
		{"op": "keyfile_write", "path": p, "pub": k},
		{"op": "keyfile_read", "path": p},
		{"op": "keyfile_write", "path": filepath.Join(dir, "short.key"), "pub": b64(bytes.Repeat([]byte{1}, 63))},
		{"op": "keyfile_write", "path": filepath.Join(dir, "long.key"), "pub": b64(bytes.Repeat([]byte{1}, 65))},
	}
	recs, crashed, res, err := s.Agent(cmds, nil, 0)
	if err != nil || crashed >= 0 || len(recs) != 4 {
		c.Inconclusive("agent key-file API failed: " + short(res.Stderr, 200))
		return
	}
	if recs[0]["err"] != nil || recs[1]["out"] != k {
		c.Violation("api-roundtrip", fmt.Sprintf("WriteKeyToFile/ReadKeyFromFile do not round-trip: %v / %v", recs[0]["err"], recs[1]), nil)
	}
	if st, e := os.Stat(p); e == nil && st.Mode().Perm()&0o077 != 0 {
		c.Violation("key-file-permissions|api", fmt.Sprintf("WriteKeyToFile created mode %04o", st.Mode().Perm()), nil)
	}
	for i, nm := range []string{"short.key", "long.key"} {
		if recs[2+i]["err"] == nil {
			c.Violation("api-writes-bad-length", "WriteKeyToFile accepted a key that is not 64 bytes ("+nm+")", nil)
		}
		if _, e := os.Stat(filepath.Join(dir, nm)); e == nil {
			c.Violation("api-writes-bad-length", "WriteKeyToFile created "+nm, nil)
		}
	}
	c.Count("api_roundtrips", 1)
}

// c11FailingRuns: a run that stores a fresh key (or uses an existing one), writes some ciphertext
// and then fails on a later line (over-long line, gzip stream that ends early, missing input) must
// leave the key file in place: whatever ciphertext is in the output is decryptable with the file
// at the key path, and an existing key file stays byte-for-byte untouched.
func c11FailingRuns(s *sut.SUT, c *ev.Check, validKey string) {
	type fk struct {
		name string
		mk   func(dir string) string // returns the input path
	}
	secret := func(i int) string { return fmt.Sprintf("zqC11F%dsecret", i) }
	good := func(n int) string {
		var b strings.Builder
		for i := 0; i < n; i++ {
			b.WriteString(c11Line(secret(i), i))
			b.WriteByte('\n')
		}
		return b.String()
	}
	kinds := []fk{
		{"over-long line after 3 lines", func(dir string) string {
			p := filepath.Join(dir, "in.log")
			os.WriteFile(p, []byte(good(3)+c11Line(strings.Repeat("L", 70000), 3)+"\n"+c11Line("after", 4)+"\n"), 0o644)
			return p
		}},
		{"over-long line after 900 lines", func(dir string) string {
			p := filepath.Join(dir, "in.log")
			os.WriteFile(p, []byte(good(900)+c11Line(strings.Repeat("L", 70000), 3)+"\n"), 0o644)
			return p
		}},
		{"gzip input cut in the middle", func(dir string) string {
			p := filepath.Join(dir, "in.log.gz")
			z := gz([]byte(good(2000)))
			os.WriteFile(p, z[:len(z)/2], 0o644)
			return p
		}},
		{"input file missing", func(dir string) string { return filepath.Join(dir, "no-such-input.log") }},
	}
	type job struct {
		k     fk
		state string
	}
	var jobs []job
	for _, k := range kinds {
		for _, st := range []string{"absent", "valid"} {
			jobs = append(jobs, job{k, st})
		}
	}
	parallelDo(len(jobs), func(ji int) {
		jb := jobs[ji]
		dir := s.TempDir("c11f")
		defer os.RemoveAll(dir)
		kp := filepath.Join(dir, "enc.key")
		if jb.state == "valid" {
			os.WriteFile(kp, []byte(validKey), 0o600)
		}
		before := c11Take(kp)
		in := jb.k.mk(dir)
		outp := filepath.Join(dir, "out.log")
		r := s.CLI(sut.Run{Args: []string{"redact", "--encrypt", "-q", kp, "-o", outp, in}, Dir: dir})
		if r.TimedOut {
			c.Inconclusive("watchdog")
			return
		}
		after := c11Take(kp)
		out, _ := os.ReadFile(outp)
		ols := splitLines(out)
		label := fmt.Sprintf("key %s, %s", jb.state, jb.k.name)
		c.Count("failing_runs", 1)
		c.Eval("failing|" + label)
		viol := func(kind, what string) {
			c.Violation(kind+"|failing-run|"+jb.state, fmt.Sprintf("%s: %s (exit %d, %d output lines, stderr: %s)", label, what, r.Exit, len(ols), short(bytes.TrimSpace(r.Stderr), 160)),
				map[string]any{"state": jb.state, "failing_run": jb.k.name})
		}
		if r.Exit == 0 {
			c.Count("failing_runs_that_exit_0(C07/C08)", 1)
		}
		if jb.state == "valid" && !after.same(before) {
			viol("key-file-touched", "the existing valid key file changed")
			return
		}
		if len(ols) == 0 {
			return // no ciphertext was written; whether a key file was stored is not judged
		}
		c.Count("failing_runs_with_ciphertext_in_the_output", 1)
		if _, okk := c11KeyOf(after.bytes); after.kind != "file" || !okk {
			viol("ciphertext-without-stored-key", fmt.Sprintf("the output holds %d lines of ciphertext but the key path now holds %s (%d bytes)", len(ols), after.kind, len(after.bytes)))
			return
		}
		t, err := jt.ParseObject(ols[0])
		if err != nil {
			return
		}
		leaf := t.Get("attr").Get("command").Get("filter").Get("name")
		if leaf == nil || leaf.K != jt.Str {
			return
		}
		raw, has, dr := decryptCLI(s, dir, kp, leaf.S)
		if dr.Exit != 0 || !has || raw != secret(0) {
			viol("output-not-decryptable-with-key-file", fmt.Sprintf("the first emitted value does not decrypt to the planted secret with the file at the key path (decrypt exit %d, printed %q)", dr.Exit, trunc(raw, 40)))
		}
	})
}

// c11AtlasRuns: --encrypt in Atlas mode (2 hosts behind the fake endpoint). The key file follows the
// same life cycle as with a file job; in particular an existing valid key file is left byte-for-byte
// untouched also when its path is one of the per-host output names <outputFile>.<i>.
func c11AtlasRuns(s *sut.SUT, c *ev.Check, validKey string) {
	type job struct{ name, state string }
	jobs := []job{{"key elsewhere", "absent"}, {"key elsewhere", "valid"}, {"key path is <outputFile>.0", "valid"}, {"key path is <outputFile>.1", "valid"}, {"key path is <outputFile>.1", "absent"}, {"key path is <outputFile>.0 through a symlink", "valid"}}
	parallelDo(len(jobs), func(ji int) {
		jb := jobs[ji]
		cfg, _, _, names := c17Build(c.Seed+11, ji*3, c17Case{2, -1, "none"})
		srv, err := atlasfake.New(cfg)
		if err != nil {
			c.Inconclusive("fake endpoint: " + err.Error())
			return
		}
		defer srv.Close()
		dir := s.TempDir("c11a")
		defer os.RemoveAll(dir)
		os.Mkdir(filepath.Join(dir, "tmp"), 0o755)
		outp := filepath.Join(dir, "out.log")
		kp, real := filepath.Join(dir, "enc.key"), ""
		switch {
		case strings.HasSuffix(jb.name, ".0"):
			kp = outp + ".0"
		case strings.HasSuffix(jb.name, ".1"):
			kp = outp + ".1"
		case strings.Contains(jb.name, "symlink"):
			real = filepath.Join(dir, "real.key")
			kp = outp + ".0"
		}
		if jb.state == "valid" {
			if real != "" {
				os.WriteFile(real, []byte(validKey), 0o600)
				os.Symlink(real, kp)
			} else {
				os.WriteFile(kp, []byte(validKey), 0o600)
			}
		}
		before := c11Take(kp)
		var realBefore c11Snap
		if real != "" {
			realBefore = c11Take(real)
		}
		env := append(atlasEnv(srv, dir), "ATLAS_PUBLIC_KEY="+atlasPub, "ATLAS_PRIVATE_KEY="+atlasPriv, "TMPDIR="+filepath.Join(dir, "tmp"))
		r := s.CLI(sut.Run{Args: []string{"redact", "--atlasProjectId", cfg.Project, "--atlasClusterName", cfg.Cluster, "-o", outp, "--encrypt", "-q", kp}, Dir: dir, Env: env, Timeout: 3 * time.Minute})
		if r.TimedOut {
			c.Inconclusive("watchdog on an Atlas CLI run")
			return
		}
		after := c11Take(kp)
		label := fmt.Sprintf("Atlas job with --encrypt, %d hosts, %s, key %s", len(names), jb.name, jb.state)
		c.Count("atlas_runs", 1)
		c.Eval("atlas|" + label)
		viol := func(kind, what string) {
			c.Violation(kind+"|atlas|"+jb.name, fmt.Sprintf("%s: %s (exit %d, stderr: %s)", label, what, r.Exit, short(bytes.TrimSpace(r.Stderr), 200)), map[string]any{"kind": "atlas-encrypt", "job": jb.name, "state": jb.state})
		}
		if jb.state == "valid" {
			if !after.same(before) || (real != "" && !c11Take(real).same(realBefore)) {
				viol("key-file-touched", fmt.Sprintf("the existing valid key file changed (before: %s %d bytes, after: %s %d bytes)", before.kind, len(before.bytes), after.kind, len(after.bytes)))
			}
			return
		}
		// key absent: a run that succeeds has stored a usable key; a run that fails has not left ciphertext without one
		if r.Exit == 0 {
			if k, okk := c11KeyOf(after.bytes); after.kind != "file" || !okk || len(k) != 64 {
				viol("no-valid-key-stored", fmt.Sprintf("the run succeeded but the key path holds %s of %d bytes", after.kind, len(after.bytes)))
			} else if after.mode&0o077 != 0 {
				viol("key-file-permissions", fmt.Sprintf("generated key file has mode %04o", after.mode))
			}
		}
	})
}
