package checks

import (
	"bytes"
	"fmt"
	"os"
	"path/filepath"
	"sort"
	"strings"
	"time"

	"verif/atlasfake"
	"verif/sut"
)

// C18: redact accepts exactly the well-defined jobs; rejections have no side
// effects. Exhaustive: all 2^13 presence/absence combinations, each a real
// process in a fresh directory with a pre-seeded output file, observed through
// exit status, stderr, a directory snapshot and the fake endpoint's event log.

const (
	bFile = 1 << iota
	bStdin
	bOut
	bEncrypt
	bRegexp
	bFieldNames
	bProject
	bCluster
	bPubFlag
	bPrivFlag
	bStart
	bEnd
	bEnvPair
)

var c18BitNames = []string{"file", "stdin", "-o", "--encrypt", "-z", "-f", "--atlasProjectId", "--atlasClusterName", "--atlasPublicKey", "--atlasPrivateKey", "--atlasLogStartDate", "--atlasLogEndDate", "env-key-pair"}

func c18Name(m int) string {
	var p []string
	for i, n := range c18BitNames {
		if m&(1<<i) != 0 {
			p = append(p, n)
		}
	}
	if len(p) == 0 {
		return "(nothing)"
	}
	return strings.Join(p, " ")
}

// c18Rule is the rule table written from the statement / README: "" = accept,
// otherwise the first violated rule.
func c18Rule(m int) string {
	has := func(b int) bool { return m&b != 0 }
	atlas := has(bProject) || has(bCluster) || has(bPubFlag) || has(bPrivFlag) || has(bStart) || has(bEnd)
	sources := 0
	for _, b := range []bool{has(bFile), has(bStdin), atlas} {
		if b {
			sources++
		}
	}
	switch {
	case has(bRegexp) && has(bFieldNames):
		return "regexp-and-fieldnames"
	case has(bStart) != has(bEnd):
		return "start-xor-end"
	case has(bProject) != has(bCluster):
		return "project-xor-cluster"
	case sources != 1:
		return fmt.Sprintf("%d-input-sources", sources)
	case atlas && !(has(bProject) && has(bCluster)):
		return "atlas-without-project-and-cluster"
	case atlas && !has(bOut):
		return "atlas-without-output-file"
	case atlas && !((has(bPubFlag) || has(bEnvPair)) && (has(bPrivFlag) || has(bEnvPair))):
		return "atlas-without-key-pair"
	case has(bEncrypt) && (has(bStdin) || !has(bOut)):
		return "encrypt-needs-file-input-and-output"
	}
	return ""
}

type dirSnap map[string]string

func snapDir(dir string) dirSnap {
	s := dirSnap{}
	filepath.WalkDir(dir, func(p string, d os.DirEntry, err error) error {
		if err != nil || p == dir {
			return nil
		}
		rel, _ := filepath.Rel(dir, p)
		if rel == "tmp" || strings.HasPrefix(rel, "tmp/") || rel == "verif-ca.pem" {
			return nil
		}
		if d.IsDir() {
			s[rel] = "<dir>"
			return nil
		}
		b, _ := os.ReadFile(p)
		s[rel] = string(b)
		return nil
	})
	return s
}

func (a dirSnap) diff(b dirSnap) []string {
	var d []string
	for k, v := range a {
		if w, ok := b[k]; !ok {
			d = append(d, "removed: "+k)
		} else if w != v {
			d = append(d, fmt.Sprintf("changed: %s (%d -> %d bytes)", k, len(v), len(w)))
		}
	}
	for k := range b {
		if _, ok := a[k]; !ok {
			d = append(d, "created: "+k)
		}
	}
	sort.Strings(d)
	return d
}

func C18() int {
	s, c, _, ok := setup("C18", "exploration")
	if !ok {
		return c.Finish("build failed")
	}
	defer s.Close()
	input := []byte(c11Line("zqC18secretA", 1) + "\n" + `{"t":{"$date":"2025-01-01T00:00:00.000Z"},"s":"I","c":"COMMAND","id":51803,"ctx":"conn2","msg":"Slow query","attr":{"type":"command","ns":"db.c","command":{"find":"c","filter":{"ssn":"zqC18secretB","name":"zqC18secretC"},"$db":"db"},"planSummary":"IXSCAN { ssn: 1 }","durationMillis":5}}` + "\n")
	const sentinel = "PRE-EXISTING OUTPUT FILE CONTENT - must survive a rejected job\n"
	const project, cluster, host = "5f0000000000000000c18c18", "ClusterC18", "c18-shard-00-00.abcde.mongodb.net"
	payloadGz := gz(input)
	// references for accepted file / stdin jobs: {none, -z, -f}
	refs := map[string][]byte{}
	for name, fl := range map[string][]string{"": nil, "z": {"-z", "^ssn$"}, "f": {"-f", "db"}} {
		r := s.RedactFile(fl, input)
		if r.Exit != 0 || len(r.Stdout) == 0 {
			c.Inconclusive("reference run failed")
			return c.Finish("reference failed")
		}
		refs[name] = r.Stdout
	}
	// a pool of fake endpoints, one per worker, so that events are attributable
	nw := 16
	pool := make(chan *atlasfake.Server, nw)
	var all []*atlasfake.Server
	for i := 0; i < nw; i++ {
		srv, err := atlasfake.New(atlasfake.Config{Project: project, Cluster: cluster, ConnStr: "mongodb://" + host + ":27017/?replicaSet=rs", Payload: map[string][]byte{host: payloadGz}})
		if err != nil {
			c.Inconclusive("fake endpoint: " + err.Error())
			return c.Finish("no endpoint")
		}
		pool <- srv
		all = append(all, srv)
	}
	defer func() {
		for _, x := range all {
			x.Close()
		}
	}()
	outcomes := map[string]int{}
	ruleCounts := map[string]int{}
	var omu = make(chan struct{}, 1)
	omu <- struct{}{}
	const N = 1 << 13
	// every combination once; and every REJECTED combination that names a file once more with the file
	// argument present but empty (`redact "$LOGFILE"` with the variable unset): an argument is an
	// argument, the job is as ill-defined as before and must be rejected without side effects
	type combo struct {
		m         int
		emptyFile bool
	}
	var combos []combo
	for m := 0; m < N; m++ {
		combos = append(combos, combo{m, false})
	}
	for m := 0; m < N; m++ {
		if m&bFile != 0 && c18Rule(m) != "" && (m%3 == 0 || thorough(c)) {
			combos = append(combos, combo{m, true})
		}
	}
	c.Set("rejected_combinations_repeated_with_an_empty_file_argument", len(combos)-N)
	parallelDo(len(combos), func(ji int) {
		m, emptyFile := combos[ji].m, combos[ji].emptyFile
		srv := <-pool
		defer func() { pool <- srv }()
		has := func(b int) bool { return m&b != 0 }
		dir := s.TempDir("c18")
		defer os.RemoveAll(dir)
		inp := filepath.Join(dir, "in.log")
		outp := filepath.Join(dir, "out.log")
		if m%16 == 9 || m%16 == 6 {
			// an output FILE may be called anything, also "-" (run from the job's directory): --outputFile
			// names a file, there is no spelling of it that means "standard output"
			outp = filepath.Join(dir, "-")
		}
		os.WriteFile(inp, input, 0o644)
		os.WriteFile(outp, []byte(sentinel), 0o644)
		args := []string{"redact"}
		if has(bFile) {
			if emptyFile {
				args = append(args, "")
			} else {
				args = append(args, inp)
			}
		}
		if has(bOut) {
			if filepath.Base(outp) == "-" {
				args = append(args, "-o", "-")
			} else {
				args = append(args, "-o", outp)
			}
		}
		if has(bEncrypt) {
			args = append(args, "--encrypt")
		}
		if has(bRegexp) {
			args = append(args, "-z", "^ssn$")
		}
		if has(bFieldNames) {
			args = append(args, "-f", "db")
		}
		if has(bProject) {
			args = append(args, "--atlasProjectId", project)
		}
		if has(bCluster) {
			args = append(args, "--atlasClusterName", cluster)
		}
		if has(bPubFlag) {
			args = append(args, "--atlasPublicKey", atlasPub)
		}
		if has(bPrivFlag) {
			args = append(args, "--atlasPrivateKey", atlasPriv)
		}
		if has(bStart) {
			args = append(args, "--atlasLogStartDate", "1748000000")
		}
		if has(bEnd) {
			args = append(args, "--atlasLogEndDate", "1748003600")
		}
		env := atlasEnv(srv, dir)
		if has(bEnvPair) {
			env = append(env, "ATLAS_PUBLIC_KEY="+atlasPub, "ATLAS_PRIVATE_KEY="+atlasPriv)
		}
		if m%4 == 2 {
			// a release build (the version string comes from ANONYMONGO_VERSION) with nothing cached in the home directory
			env = append(env, "ANONYMONGO_VERSION=2.7.1", "HOME="+filepath.Join(dir, "home"), "XDG_CACHE_HOME="+filepath.Join(dir, "home", ".cache"))
		}
		if !has(bEnvPair) && (m/2+m/64+m/256)%2 == 1 {
			// exported but empty: that is no key pair
			env = append(env, "ATLAS_PUBLIC_KEY=", "ATLAS_PRIVATE_KEY=")
			c.Count("runs_with_empty_key_variables", 1)
		}
		run := sut.Run{Args: args, Dir: dir, Env: env, Timeout: 2 * time.Minute}
		if has(bStdin) {
			run.Stdin = input
			if m%8 == 3 {
				// a slow producer: the pipe is there from the start, its first byte arrives after 400 ms
				run.StdinDelay = 400 * time.Millisecond
				c.Count("runs_with_a_slow_stdin_producer", 1)
			}
		}
		before := snapDir(dir)
		nreq0, ncon0 := len(srv.Log()), len(srv.Connects())
		r := s.CLI(run)
		after := snapDir(dir)
		log := srv.Log()[nreq0:]
		cons := srv.Connects()[ncon0:]
		rule := c18Rule(m)
		name := c18Name(m)
		if emptyFile {
			name += " [the file argument is the empty string]"
		}
		c.Eval(name)
		<-omu
		if rule == "" {
			ruleCounts["accept"]++
		} else {
			ruleCounts["reject:"+strings.TrimLeft(rule, "0123456789-")]++
		}
		outcomes[fmt.Sprintf("rule=%v exit0=%v", rule == "", r.Exit == 0)]++
		omu <- struct{}{}
		if r.TimedOut {
			c.Inconclusive("watchdog: " + name)
			return
		}
		rp := map[string]any{"kind": "cli-combination", "combination": name, "args": args[1:], "piped_stdin": has(bStdin), "env_key_pair": has(bEnvPair), "rule": rule, "exit": r.Exit, "stderr": short(bytes.TrimSpace(r.Stderr), 300), "directory_changes": before.diff(after), "requests": logURLs(log), "connects": cons}
		if sut.Crashed(r.Stderr) {
			c.Violation("crash", name+": runtime crash: "+short(r.Stderr, 200), rp)
			return
		}
		if rule != "" {
			// ---- must be rejected, without side effects
			sig := strings.TrimLeft(rule, "0123456789-")
			if r.Exit == 0 {
				c.Violation("accepted-ill-defined-job|"+sig, fmt.Sprintf("[%s] violates rule '%s' but exits 0", name, rule), rp)
			} else if len(bytes.TrimSpace(r.Stderr)) == 0 {
				c.Violation("rejection-without-message|"+sig, fmt.Sprintf("[%s] is rejected (exit %d) without any message", name, r.Exit), rp)
			}
			if d := before.diff(after); len(d) > 0 {
				c.Violation("rejection-with-file-side-effect|"+sig, fmt.Sprintf("[%s] violates rule '%s' (exit %d) but the directory changed: %v", name, rule, r.Exit, d), rp)
			}
			if len(log) > 0 || len(cons) > 0 {
				c.Violation("rejection-with-network-request|"+sig, fmt.Sprintf("[%s] violates rule '%s' (exit %d) but %d request(s) / %d CONNECT(s) reached the network: %v", name, rule, r.Exit, len(log), len(cons), logURLs(log)), rp)
			}
			return
		}
		// ---- must be accepted and do its job
		if r.Exit != 0 {
			c.Violation("rejected-well-defined-job", fmt.Sprintf("[%s] is a well-defined job but exits %d: %s", name, r.Exit, short(bytes.TrimSpace(r.Stderr), 200)), rp)
			return
		}
		atlas := has(bProject)
		switch {
		case atlas:
			s0, e0 := 0, 0
			if has(bStart) {
				s0, e0 = 1748000000, 1748003600
			}
			exp := []string{"/api/atlas/v2/groups/" + project + "/clusters/" + cluster}
			if len(log) > 0 {
				for _, q := range log {
					if m := reWindow.FindStringSubmatch(q.RawQuery); m != nil && s0 == 0 {
						fmt.Sscan(m[1], &e0)
						fmt.Sscan(m[2], &s0)
					}
				}
			}
			exp = append(exp, fmt.Sprintf("/api/atlas/v2/groups/%s/clusters/%s/logs/mongodb.gz?endDate=%d&startDate=%d", project, host, e0, s0))
			if why := checkRequestLog(log, exp); why != "" {
				c.Violation("accepted-atlas-job-wrong-requests", fmt.Sprintf("[%s]: %s", name, why), rp)
			}
			if b, err := os.ReadFile(outp + ".0"); err != nil || len(splitLines(b)) != 2 {
				c.Violation("accepted-atlas-job-no-output", fmt.Sprintf("[%s]: %s.0 missing or incomplete (%v, %d bytes)", name, filepath.Base(outp), err, len(b)), rp)
			}
			if left := tmpLeft(dir); len(left) > 0 {
				c.Count("atlas_runs_with_temp_files_left(C17)", 1)
			}
		default:
			var got []byte
			if has(bOut) {
				got, _ = os.ReadFile(outp)
			} else {
				got = r.Stdout
			}
			want := refs[""]
			if has(bRegexp) {
				want = refs["z"]
			} else if has(bFieldNames) {
				want = refs["f"]
			}
			if has(bEncrypt) {
				// (in selective mode values under non-matching names legitimately stay in clear)
				if len(splitLines(got)) != len(splitLines(want)) || (!has(bRegexp) && bytes.Contains(got, []byte("zqC18secret"))) {
					c.Violation("accepted-job-wrong-output", fmt.Sprintf("[%s]: encrypted output has %d lines (expected %d) or shows a secret", name, len(splitLines(got)), len(splitLines(want))), rp)
				}
				if _, err := os.Stat(filepath.Join(dir, "anonymongo.enc.key")); err != nil {
					c.Violation("accepted-job-wrong-output", fmt.Sprintf("[%s]: no key file at the default path after an accepted --encrypt job", name), rp)
				}
			} else if !bytes.Equal(got, want) {
				c.Violation("accepted-job-wrong-output", fmt.Sprintf("[%s]: output (%d bytes) is not the reference redaction (%d bytes)", name, len(got), len(want)), rp)
			}
			if len(log) > 0 || len(cons) > 0 {
				c.Violation("network-request-in-file-mode", fmt.Sprintf("[%s]: a file / stdin job sent %d request(s)", name, len(log)), rp)
			}
		}
		if m%1365 == 7 || (rule == "" && m%97 == 0) {
			c.Sample(map[string]any{"combination": name, "rule_table": "accept", "exit": r.Exit, "directory_changes": before.diff(after), "requests": len(log)})
		}
	})
	c.Set("combinations", N)
	c.Set("rule_table_counts", ruleCounts)
	c.Set("outcomes", outcomes)
	raceVerdict(s, c)
	c.Set("exhaustive", true)
	if c.Evals() < N {
		c.Inconclusive("not all 8192 combinations ran")
	}
	c.Sample(map[string]any{"combination": "(rule table)", "rules": "reject if: -z with -f; start xor end; project xor cluster; sources among {file, stdin, atlas} != 1; atlas without project and cluster; atlas without -o; atlas without a public and a private key (flag or env pair); --encrypt with stdin or without -o"})
	c.Assume("atlas := any of --atlasProjectId/--atlasClusterName/--atlasPublicKey/--atlasPrivateKey/--atlasLogStartDate/--atlasLogEndDate given; --encrypt with Atlas input and -o is a well-defined job (files in, files out)")
	c.Assume("which message is printed and the order in which violated rules are reported are not judged")
	return c.Finish("exhaustive: all 8192 presence/absence combinations of the 13 switches, one real process each in a fresh directory holding a small input file, a pre-existing output file with sentinel content and no key file; stdin /dev/null or a pipe; a fake Atlas endpoint per worker; outcome class compared with a rule table written from the statement; rejections must leave the directory snapshot unchanged and produce zero endpoint events, accepted jobs must produce their output")
}
