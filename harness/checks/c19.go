package checks

import (
	"bytes"
	"fmt"
	"os"
	"path/filepath"
	"strings"

	"verif/gen"
	"verif/jt"
	"verif/sut"
)

// C19: redacted output is a fixed point of redaction.
func C19() int {
	s, c, g, ok := setup("C19", "exploration")
	if !ok {
		return c.Finish("build failed")
	}
	defer s.Close()
	vocab := Vocabulary(s, c)
	nfiles := pickN(c, 60, 600)
	reps := []*string{nil, sp(""), sp("Ωmega ñ"), sp(`q"uo\te`), sp("$lead"), sp("\x1b[1mX\x07\x7f\U000E0001 \\u0026 & <")}
	type job struct {
		file int
		f    Flags
	}
	var files [][]byte
	twinLines := 0
	for i := 0; i < nfiles; i++ {
		var buf bytes.Buffer
		for j, n := 0, 5+i%40; j < n; j++ {
			var l *jt.Node
			switch (i + j) % 5 {
			case 0:
				l = g.SoupLine(vocab, i+j)
			case 1:
				l = g.OtherLine()
			default:
				l = g.Case(gen.CaseOpts{}).Line
			}
			st := []jt.Style{jt.Plain, jt.GoLike, jt.Unicode, jt.Spaced}[j%4]
			if (i+j)%5 == 1 {
				// peer addresses outside attr.remote (4.4 ACCESS lines have attr.client, connection reports nest one)
				if attr := l.Get("attr"); attr != nil && attr.K == jt.Obj {
					attr.Set("errMsg", jt.StrN("Document failed validation: "+strings.Repeat("additional details: field 'status' must be one of the allowed values; ", 4+(i+j)%9)+"(code 121)"))
					attr.Set("client", jt.StrN(fmt.Sprintf("10.2.%d.%d:%d", i%250, j%250, 20000+i)))
					attr.Set("connection", jt.ObjN("remote", jt.StrN(fmt.Sprintf("192.168.%d.%d:%d", j%250, i%250, 30000+j)), "id", jt.IntN(j)))
				}
			}
			buf.Write(l.Bytes(st))
			buf.WriteByte('\n')
			if i%4 == 1 && (i+j)%5 >= 2 {
				// neighbours that differ only in what gets redacted (their first-pass lines are
				// byte-identical), and exact repeats: a fixed point must keep every one of them
				switch j % 3 {
				case 0:
					buf.Write(g.Reassign(l, gen.ReassignOpts{Mode: gen.Fresh}).Bytes(st))
					buf.WriteByte('\n')
				case 1:
					buf.Write(l.Bytes(st))
					buf.WriteByte('\n')
				}
				twinLines++
			}
		}
		if i%3 == 2 {
			// lines that are not log entries (they contribute nothing to either pass): JSON of another kind, torn lines, text
			for _, x := range []string{`[1,2,3]`, `"just a string"`, `{"t":{"$date":"2025-01-01T00:00:00.000Z"},"s":"I","c":"COMMAND","attr":{"torn":`, `2025-01-01T00:00:00.000+0000 I NETWORK [conn1] text line`, ``, `null`}[:2+i%5] {
				buf.WriteString(x + "\n")
			}
		}
		files = append(files, buf.Bytes())
	}
	// the systematic slot × class catalogue (every operator family, large arrays, deep nesting), 40 lines per file
	cat := g.Catalogue(1)
	for lo := 0; lo < len(cat); lo += 40 {
		var buf bytes.Buffer
		for j := lo; j < lo+40 && j < len(cat); j++ {
			buf.Write(cat[j].Line.Bytes(jt.Plain))
			buf.WriteByte('\n')
		}
		files = append(files, buf.Bytes())
	}
	// redaction can make a line LONGER (a one-character literal becomes the 8-character placeholder):
	// a legal input line below the reader's limit whose redacted form lies beyond it
	growth := len(files)
	{
		var buf bytes.Buffer
		for k := 0; k < 2; k++ {
			arr := jt.ArrN()
			for i := 0; i < 12000; i++ {
				arr.Vals = append(arr.Vals, jt.StrN("a"))
			}
			cmd := jt.ObjN("find", jt.StrN("c"), "filter", jt.ObjN("k", jt.ObjN("$in", arr)), "$db", jt.StrN("db"))
			cs := g.Case(gen.CaseOpts{Verb: "find", Carrier: "command", Comp: "COMMAND", DB: "db", Coll: "c", Cmd: cmd})
			buf.Write(cs.Line.Bytes(jt.Plain))
			buf.WriteByte('\n')
		}
		files = append(files, buf.Bytes())
	}
	c.Set("catalogue_lines", len(cat))
	c.Set("lines_with_a_twin_differing_only_in_redacted_values_or_repeated", twinLines)
	var jobs []job
	for i := range files {
		for m := 0; m < 8; m++ {
			for ri, r := range reps {
				if !thorough(c) && (i+m+ri)%4 != 0 && !(i == growth && m+ri == 0) {
					continue
				}
				jobs = append(jobs, job{i, Flags{N: m&1 != 0, B: m&2 != 0, I: m&4 != 0, R: r}})
			}
		}
	}
	parallelDo(len(jobs), func(ji int) {
		jb := jobs[ji]
		dir := s.TempDir("c19")
		defer os.RemoveAll(dir)
		in := filepath.Join(dir, "in.log")
		os.WriteFile(in, files[jb.file], 0o644)
		o1, o2 := filepath.Join(dir, "pass1.log"), filepath.Join(dir, "pass2.log")
		fa := jb.f.Args(ji, "")
		if ji%2 == 0 {
			// both output paths already hold an older, longer result
			stale := bytes.Repeat([]byte(`{"stale":"older and longer output"}`+"\n"), 300+len(files[jb.file])/12)
			os.WriteFile(o1, stale, 0o644)
			os.WriteFile(o2, stale, 0o644)
			c.Count("runs_onto_existing_longer_output_files", 1)
		}
		toStdout := ji%4 == 1 && !jb.f.Enc
		pass := func(src, dst string) sut.Result {
			if toStdout {
				// through standard output (redirected into the file): what the tool prints there IS the redacted log
				return s.CLI(sut.Run{Args: append(append([]string{"redact"}, fa...), src), Dir: dir, StdoutFile: dst})
			}
			return s.CLI(sut.Run{Args: append(append([]string{"redact"}, fa...), src, "-o", dst), Dir: dir})
		}
		if toStdout {
			c.Count("two_pass_runs_through_stdout", 1)
		}
		r1 := pass(in, o1)
		if ji%3 == 0 && r1.Exit == 0 {
			// calibrate: pad one input line so that its REDACTED line is exactly k×4096 bytes long — the
			// second pass then reads a line that ends exactly on a reader-buffer boundary
			if b1, err := os.ReadFile(o1); err == nil {
				inLines, outLines := splitLines(files[jb.file]), splitLines(b1)
				var objIn []int
				for i, l := range inLines {
					if _, e := jt.ParseObject(l); e == nil {
						objIn = append(objIn, i)
					}
				}
				if len(objIn) == len(outLines) && len(objIn) > 1 {
					k := (ji / 3) % (len(objIn) - 1) // never the last line only: a line after it must survive too
					L1 := len(outLines[k])
					const pre = `,"padding":"`
					target := ((L1+len(pre)+1)/4096 + 1 + (ji/3)%3) * 4096
					need := target - L1 - len(pre) - 1
					raw := bytes.TrimRight(inLines[objIn[k]], " \t\r")
					if need >= 0 && target < 60000 && len(raw) > 2 && raw[len(raw)-1] == '}' && !bytes.Equal(bytes.TrimSpace(raw), []byte("{}")) {
						padded := append(append(append([]byte{}, raw[:len(raw)-1]...), pre...), bytes.Repeat([]byte("p"), need)...)
						padded = append(padded, '"', '}')
						inLines[objIn[k]] = padded
						calibrated := append(bytes.Join(inLines, []byte("\n")), '\n')
						os.WriteFile(in, calibrated, 0o644)
						r1 = pass(in, o1)
						if b1c, _ := os.ReadFile(o1); len(splitLines(b1c)) == len(outLines) && len(splitLines(b1c)[k]) == target {
							c.Count("files_with_an_output_line_of_exactly_k_x_4096_bytes", 1)
						}
					}
				}
			}
		}
		r2 := pass(o1, o2)
		if r1.TimedOut || r2.TimedOut {
			c.Inconclusive("watchdog fired")
			return
		}
		b1, _ := os.ReadFile(o1)
		b2, _ := os.ReadFile(o2)
		key := ""
		if len(b1) > 0 {
			key = fmt.Sprint(jb.file) + jb.f.String()
		}
		c.Eval(key)
		c.Count("output_lines_fed_back", bytes.Count(b1, []byte("\n")))
		if r1.Exit == 0 && r2.Exit != 0 && (bytes.Contains(r2.Stderr, []byte("token too long")) || bytes.Contains(r2.Stderr, []byte("longer than the maximum")) || bytes.Contains(r2.Stderr, []byte("too long"))) {
			longest := 0
			for _, l := range splitLines(b1) {
				if len(l) > longest {
					longest = len(l)
				}
			}
			if longest >= 64*1024 {
				c.Count("first_pass_output_lines_beyond_the_reader_limit", 1)
				c.Violation("pass-failed|output-line-beyond-reader-limit", fmt.Sprintf("the first pass emitted a line of %d bytes (its input lines are all below 64 KiB); the second pass stops with exit %d: %s", longest, r2.Exit, short(bytes.TrimSpace(r2.Stderr), 200)),
					map[string]any{"kind": "two-pass", "flags": fa, "input_bytes": len(files[jb.file]), "input_head": short(files[jb.file], 400)})
				return
			}
		}
		if r1.Exit != 0 || r2.Exit != 0 {
			c.Violation("pass-failed|exit", fmt.Sprintf("pass exit codes %d/%d (flags %s): %s", r1.Exit, r2.Exit, jb.f, short(append(r1.Stderr, r2.Stderr...), 300)),
				map[string]any{"kind": "two-pass", "flags": fa, "input": string(files[jb.file])})
			return
		}
		if !bytes.Equal(b1, b2) {
			l1, l2 := splitLines(b1), splitLines(b2)
			what, sig := fmt.Sprintf("line count %d vs %d", len(l1), len(l2)), "line-count"
			for i := 0; i < len(l1) && i < len(l2); i++ {
				if !bytes.Equal(l1[i], l2[i]) {
					ta, ea := jt.ParseObject(l1[i])
					tb, eb := jt.ParseObject(l2[i])
					what, sig = fmt.Sprintf("line %d differs", i), "line"
					if ea == nil && eb == nil {
						done := false
						jt.Align(ta, tb, false, func(o jt.Obs) {
							if !done && (o.Mismatch != "" || (o.In.K <= jt.Str && (o.In.S != o.Out.S || o.In.B != o.Out.B))) {
								done = true
								what = fmt.Sprintf("line %d differs at %s: first pass %s, second pass %s", i, jt.PathStr(o.Path), short(o.In.Bytes(jt.Plain), 80), short(nodeBytes(o.Out), 80))
								sig = opSig(o.Path)
							}
						})
					}
					break
				}
			}
			c.Violation("not-a-fixed-point|"+sig, fmt.Sprintf("redact(redact(x)) != redact(x): %s (flags %s)", what, jb.f),
				map[string]any{"kind": "two-pass", "flags": fa, "input": string(files[jb.file]), "pass1": string(b1), "pass2": string(b2)})
		}
		if ji < 3 {
			c.Sample(map[string]any{"flags": jb.f.String(), "first_input_line": short(files[jb.file], 300), "first_output_line": short(b1, 300), "second_pass_identical": bytes.Equal(b1, b2)})
		}
	})
	c.Set("files", len(files))
	raceVerdict(s, c)
	c.Assume("replacement text is not itself e-mail-shaped; no --redactNamespaces / --redactFieldNames")
	return c.Finish("multi-line files mixing grammar command lines, vocabulary soup in zones and other-component soup, under 2^3 of -n -b -i × 5 replacement texts (default, empty, Unicode, quotes/backslash, $-leading); the first pass's output FILE is fed back with the same flags and compared as bytes; distinct by file+flags, non-trivial when the first pass produced output")
}

func nodeBytes(n *jt.Node) []byte {
	if n == nil {
		return []byte("<absent>")
	}
	return n.Bytes(jt.Plain)
}
