// Package jt is the driver's own ordered JSON tree: a strict recursive-descent
// reader (keeps key order, raw number text, detects duplicate keys, rejects
// anything that is not exactly one value), a writer with selectable escaping
// style, and a lock-step aligner. It deliberately shares no code with the
// system under test (no encoding/json on the reading side).
package jt

import (
	"errors"
	"fmt"
	"strconv"
	"strings"
	"unicode/utf16"
	"unicode/utf8"
)

type Kind uint8

const (
	Null Kind = iota
	Bool
	Num
	Str
	Obj
	Arr
)

func (k Kind) String() string {
	return [...]string{"null", "bool", "number", "string", "object", "array"}[k]
}

// Role of a leaf as assigned by the generator from the MongoDB grammar.
type Role uint8

const (
	None   Role = iota
	Sens        // client-supplied literal in a zone value position
	Ref         // "$field" reference / variable
	Keep        // must come out identical
	Free        // operational parameter, only shape is judged
	NsDB        // database name at a namespace-bearing position
	NsColl      // collection name at a namespace-bearing position
	NsFull      // "db.coll" string
	Remote      // attr.remote
)

func (r Role) String() string {
	return [...]string{"none", "SENS", "REF", "KEEP", "FREE", "NSDB", "NSCOLL", "NSFULL", "REMOTE"}[r]
}

type Tag struct {
	Role  Role
	Class string // str email date oid b64 num bool
	Slot  string
	ID    int
}

type Node struct {
	K    Kind
	B    bool
	S    string // decoded string, or raw number text
	Keys []string
	Vals []*Node // object values or array elements
	T    *Tag
}

func NullN() *Node          { return &Node{K: Null} }
func BoolN(b bool) *Node    { return &Node{K: Bool, B: b} }
func NumN(raw string) *Node { return &Node{K: Num, S: raw} }
func IntN(i int) *Node      { return &Node{K: Num, S: strconv.Itoa(i)} }
func StrN(s string) *Node   { return &Node{K: Str, S: s} }
func ArrN(e ...*Node) *Node { return &Node{K: Arr, Vals: e} }
func ObjN(kv ...any) *Node {
	n := &Node{K: Obj}
	for i := 0; i+1 < len(kv); i += 2 {
		n.Set(kv[i].(string), kv[i+1].(*Node))
	}
	return n
}

func (n *Node) Set(k string, v *Node) *Node {
	for i, kk := range n.Keys {
		if kk == k {
			n.Vals[i] = v
			return n
		}
	}
	n.Keys = append(n.Keys, k)
	n.Vals = append(n.Vals, v)
	return n
}

func (n *Node) Get(k string) *Node {
	if n == nil || n.K != Obj {
		return nil
	}
	for i, kk := range n.Keys {
		if kk == k {
			return n.Vals[i]
		}
	}
	return nil
}

func (n *Node) Has(k string) bool { return n.Get(k) != nil }

func (n *Node) With(t *Tag) *Node { n.T = t; return n }

func (n *Node) Clone() *Node {
	if n == nil {
		return nil
	}
	c := *n
	if n.Keys != nil {
		c.Keys = append([]string(nil), n.Keys...)
	}
	if n.Vals != nil {
		c.Vals = make([]*Node, len(n.Vals))
		for i, v := range n.Vals {
			c.Vals[i] = v.Clone()
		}
	}
	return &c
}

// Walk visits every node with its path (array indices as "[i]").
func (n *Node) Walk(path []string, f func(path []string, n *Node)) {
	f(path, n)
	switch n.K {
	case Obj:
		for i, k := range n.Keys {
			n.Vals[i].Walk(append(path[:len(path):len(path)], k), f)
		}
	case Arr:
		for i, v := range n.Vals {
			v.Walk(append(path[:len(path):len(path)], "["+strconv.Itoa(i)+"]"), f)
		}
	}
}

// ---------------------------------------------------------------- writer

type Style uint8

const (
	Plain   Style = iota // minimal escaping, raw UTF-8
	GoLike               // what encoding/json would emit (<,>,& and U+2028/9 escaped)
	Unicode              // every non-ASCII as \uXXXX (surrogate pairs), '/' escaped
	Spaced               // Plain escaping with insignificant white space: "k" : v , "k2" : [ 1 , 2 ] (what other serialisers, log shippers and pretty-printers-on-one-line write)
)

func (n *Node) Bytes(st Style) []byte {
	var sb strings.Builder
	n.write(&sb, st)
	return []byte(sb.String())
}

func (n *Node) String() string { return string(n.Bytes(Plain)) }

func (n *Node) write(sb *strings.Builder, st Style) {
	switch n.K {
	case Null:
		sb.WriteString("null")
	case Bool:
		if n.B {
			sb.WriteString("true")
		} else {
			sb.WriteString("false")
		}
	case Num:
		sb.WriteString(n.S)
	case Str:
		Quote(sb, n.S, st)
	case Obj:
		sb.WriteByte('{')
		for i, k := range n.Keys {
			if i > 0 {
				if st == Spaced {
					sb.WriteString(" , ")
				} else {
					sb.WriteByte(',')
				}
			}
			Quote(sb, k, st)
			if st == Spaced {
				sb.WriteString(" : ")
			} else {
				sb.WriteByte(':')
			}
			n.Vals[i].write(sb, st)
		}
		if st == Spaced && len(n.Keys) > 0 {
			sb.WriteByte(' ')
		}
		sb.WriteByte('}')
	case Arr:
		sb.WriteByte('[')
		for i, v := range n.Vals {
			if i > 0 {
				if st == Spaced {
					sb.WriteString(", ")
				} else {
					sb.WriteByte(',')
				}
			}
			v.write(sb, st)
		}
		sb.WriteByte(']')
	}
}

const hexd = "0123456789abcdef"

func Quote(sb *strings.Builder, s string, st Style) {
	sb.WriteByte('"')
	for _, r := range s {
		switch {
		case r == '"':
			sb.WriteString(`\"`)
		case r == '\\':
			sb.WriteString(`\\`)
		case r == '\n':
			sb.WriteString(`\n`)
		case r == '\r':
			sb.WriteString(`\r`)
		case r == '\t':
			sb.WriteString(`\t`)
		case r < 0x20 || r == 0x7f && st == Unicode:
			u4(sb, uint16(r))
		case st == GoLike && (r == '<' || r == '>' || r == '&' || r == 0x2028 || r == 0x2029):
			u4(sb, uint16(r))
		case st == Unicode && r == '/':
			sb.WriteString(`\/`)
		case st == Unicode && r >= 0x80:
			if r >= 0x10000 {
				a, b := utf16.EncodeRune(r)
				u4(sb, uint16(a))
				u4(sb, uint16(b))
			} else {
				u4(sb, uint16(r))
			}
		default:
			sb.WriteRune(r)
		}
	}
	sb.WriteByte('"')
}

func u4(sb *strings.Builder, v uint16) {
	sb.WriteString(`\u`)
	sb.WriteByte(hexd[v>>12&15])
	sb.WriteByte(hexd[v>>8&15])
	sb.WriteByte(hexd[v>>4&15])
	sb.WriteByte(hexd[v&15])
}

func QuoteString(s string, st Style) string {
	var sb strings.Builder
	Quote(&sb, s, st)
	return sb.String()
}

// ---------------------------------------------------------------- reader

type parser struct {
	b   []byte
	i   int
	dup bool
	dep int
}

var ErrDupKey = errors.New("duplicate sibling key")

// Parse accepts exactly one JSON value surrounded by optional white space.
// Duplicate sibling keys are reported through the second result (the tree
// keeps the first occurrence's position and the last value).
func Parse(b []byte) (*Node, bool, error) {
	p := &parser{b: b}
	p.ws()
	n, err := p.value()
	if err != nil {
		return nil, false, err
	}
	p.ws()
	if p.i != len(p.b) {
		return nil, false, fmt.Errorf("trailing data at offset %d", p.i)
	}
	return n, p.dup, nil
}

// ParseObject is Parse that additionally demands a top-level object.
func ParseObject(b []byte) (*Node, error) {
	n, _, err := Parse(b)
	if err != nil {
		return nil, err
	}
	if n.K != Obj {
		return nil, fmt.Errorf("top-level value is %s, not object", n.K)
	}
	return n, nil
}

func (p *parser) ws() {
	for p.i < len(p.b) {
		switch p.b[p.i] {
		case ' ', '\t', '\n', '\r':
			p.i++
		default:
			return
		}
	}
}

func (p *parser) value() (*Node, error) {
	if p.i >= len(p.b) {
		return nil, errors.New("unexpected end of input")
	}
	switch c := p.b[p.i]; {
	case c == '{':
		return p.object()
	case c == '[':
		return p.array()
	case c == '"':
		s, err := p.str()
		if err != nil {
			return nil, err
		}
		return &Node{K: Str, S: s}, nil
	case c == 't':
		return p.lit("true", &Node{K: Bool, B: true})
	case c == 'f':
		return p.lit("false", &Node{K: Bool, B: false})
	case c == 'n':
		return p.lit("null", &Node{K: Null})
	case c == '-' || (c >= '0' && c <= '9'):
		return p.num()
	default:
		return nil, fmt.Errorf("unexpected byte %q at offset %d", c, p.i)
	}
}

func (p *parser) lit(w string, n *Node) (*Node, error) {
	if p.i+len(w) > len(p.b) || string(p.b[p.i:p.i+len(w)]) != w {
		return nil, fmt.Errorf("bad literal at offset %d", p.i)
	}
	p.i += len(w)
	return n, nil
}

func (p *parser) num() (*Node, error) {
	s := p.i
	if p.b[p.i] == '-' {
		p.i++
	}
	if p.i >= len(p.b) {
		return nil, errors.New("bad number")
	}
	if p.b[p.i] == '0' {
		p.i++
	} else if p.b[p.i] >= '1' && p.b[p.i] <= '9' {
		for p.i < len(p.b) && p.b[p.i] >= '0' && p.b[p.i] <= '9' {
			p.i++
		}
	} else {
		return nil, errors.New("bad number")
	}
	if p.i < len(p.b) && p.b[p.i] == '.' {
		p.i++
		d := p.i
		for p.i < len(p.b) && p.b[p.i] >= '0' && p.b[p.i] <= '9' {
			p.i++
		}
		if p.i == d {
			return nil, errors.New("bad number")
		}
	}
	if p.i < len(p.b) && (p.b[p.i] == 'e' || p.b[p.i] == 'E') {
		p.i++
		if p.i < len(p.b) && (p.b[p.i] == '+' || p.b[p.i] == '-') {
			p.i++
		}
		d := p.i
		for p.i < len(p.b) && p.b[p.i] >= '0' && p.b[p.i] <= '9' {
			p.i++
		}
		if p.i == d {
			return nil, errors.New("bad number")
		}
	}
	return &Node{K: Num, S: string(p.b[s:p.i])}, nil
}

func (p *parser) str() (string, error) {
	p.i++ // opening quote
	var sb strings.Builder
	for {
		if p.i >= len(p.b) {
			return "", errors.New("unterminated string")
		}
		c := p.b[p.i]
		switch {
		case c == '"':
			p.i++
			return sb.String(), nil
		case c < 0x20:
			return "", fmt.Errorf("raw control byte 0x%02x in string at offset %d", c, p.i)
		case c == '\\':
			p.i++
			if p.i >= len(p.b) {
				return "", errors.New("bad escape")
			}
			e := p.b[p.i]
			p.i++
			switch e {
			case '"', '\\', '/':
				sb.WriteByte(e)
			case 'b':
				sb.WriteByte('\b')
			case 'f':
				sb.WriteByte('\f')
			case 'n':
				sb.WriteByte('\n')
			case 'r':
				sb.WriteByte('\r')
			case 't':
				sb.WriteByte('\t')
			case 'u':
				r, err := p.hex4()
				if err != nil {
					return "", err
				}
				if utf16.IsSurrogate(rune(r)) {
					if p.i+1 < len(p.b) && p.b[p.i] == '\\' && p.b[p.i+1] == 'u' {
						save := p.i
						p.i += 2
						r2, err := p.hex4()
						if err != nil {
							return "", err
						}
						if d := utf16.DecodeRune(rune(r), rune(r2)); d != utf8.RuneError {
							sb.WriteRune(d)
							continue
						}
						p.i = save
					}
					sb.WriteRune(utf8.RuneError)
					continue
				}
				sb.WriteRune(rune(r))
			default:
				return "", fmt.Errorf("bad escape \\%c", e)
			}
		default:
			r, sz := utf8.DecodeRune(p.b[p.i:])
			if r == utf8.RuneError && sz == 1 {
				return "", fmt.Errorf("invalid UTF-8 at offset %d", p.i)
			}
			sb.Write(p.b[p.i : p.i+sz])
			p.i += sz
		}
	}
}

func (p *parser) hex4() (uint16, error) {
	if p.i+4 > len(p.b) {
		return 0, errors.New("bad \\u escape")
	}
	v, err := strconv.ParseUint(string(p.b[p.i:p.i+4]), 16, 16)
	if err != nil {
		return 0, errors.New("bad \\u escape")
	}
	p.i += 4
	return uint16(v), nil
}

func (p *parser) object() (*Node, error) {
	p.dep++
	defer func() { p.dep-- }()
	if p.dep > 100000 {
		return nil, errors.New("too deep")
	}
	p.i++
	n := &Node{K: Obj}
	p.ws()
	if p.i < len(p.b) && p.b[p.i] == '}' {
		p.i++
		return n, nil
	}
	for {
		p.ws()
		if p.i >= len(p.b) || p.b[p.i] != '"' {
			return nil, fmt.Errorf("expected key at offset %d", p.i)
		}
		k, err := p.str()
		if err != nil {
			return nil, err
		}
		p.ws()
		if p.i >= len(p.b) || p.b[p.i] != ':' {
			return nil, fmt.Errorf("expected ':' at offset %d", p.i)
		}
		p.i++
		p.ws()
		v, err := p.value()
		if err != nil {
			return nil, err
		}
		if n.Has(k) {
			p.dup = true
		}
		n.Set(k, v)
		p.ws()
		if p.i >= len(p.b) {
			return nil, errors.New("unterminated object")
		}
		if p.b[p.i] == ',' {
			p.i++
			continue
		}
		if p.b[p.i] == '}' {
			p.i++
			return n, nil
		}
		return nil, fmt.Errorf("expected ',' or '}' at offset %d", p.i)
	}
}

func (p *parser) array() (*Node, error) {
	p.dep++
	defer func() { p.dep-- }()
	if p.dep > 100000 {
		return nil, errors.New("too deep")
	}
	p.i++
	n := &Node{K: Arr, Vals: []*Node{}}
	p.ws()
	if p.i < len(p.b) && p.b[p.i] == ']' {
		p.i++
		return n, nil
	}
	for {
		p.ws()
		v, err := p.value()
		if err != nil {
			return nil, err
		}
		n.Vals = append(n.Vals, v)
		p.ws()
		if p.i >= len(p.b) {
			return nil, errors.New("unterminated array")
		}
		if p.b[p.i] == ',' {
			p.i++
			continue
		}
		if p.b[p.i] == ']' {
			p.i++
			return n, nil
		}
		return nil, fmt.Errorf("expected ',' or ']' at offset %d", p.i)
	}
}

// ---------------------------------------------------------------- aligner

// Obs is one observation of the lock-step walk over input and output tree.
type Obs struct {
	Path     []string
	In, Out  *Node  // Out nil when the output has nothing at this position
	Mismatch string // "" | "kind" | "keys" | "length" | "missing"
}

// Align walks in and out in lock step. f is called for every input node
// (containers included). Where the structure differs (kind, key list, array
// length) the observation carries Mismatch and descent stops at that node, so
// later observations are never mis-attributed. If renamed is true, object
// keys are matched by position instead of by name (field-name redaction).
func Align(in, out *Node, renamed bool, f func(o Obs)) {
	align(nil, in, out, renamed, f)
}

func align(path []string, in, out *Node, renamed bool, f func(o Obs)) {
	if out == nil {
		f(Obs{Path: path, In: in, Mismatch: "missing"})
		return
	}
	if in.K != out.K {
		f(Obs{Path: path, In: in, Out: out, Mismatch: "kind"})
		return
	}
	switch in.K {
	case Obj:
		if len(in.Keys) != len(out.Keys) {
			f(Obs{Path: path, In: in, Out: out, Mismatch: "keys"})
			return
		}
		if !renamed {
			for i := range in.Keys {
				if in.Keys[i] != out.Keys[i] {
					f(Obs{Path: path, In: in, Out: out, Mismatch: "keys"})
					return
				}
			}
		}
		f(Obs{Path: path, In: in, Out: out})
		for i, k := range in.Keys {
			align(append(path[:len(path):len(path)], k), in.Vals[i], out.Vals[i], renamed, f)
		}
	case Arr:
		if len(in.Vals) != len(out.Vals) {
			f(Obs{Path: path, In: in, Out: out, Mismatch: "length"})
			return
		}
		f(Obs{Path: path, In: in, Out: out})
		for i := range in.Vals {
			align(append(path[:len(path):len(path)], "["+strconv.Itoa(i)+"]"), in.Vals[i], out.Vals[i], renamed, f)
		}
	default:
		f(Obs{Path: path, In: in, Out: out})
	}
}

// Equal compares two trees: keys and order, decoded strings, raw number text.
func Equal(a, b *Node) bool {
	if a == nil || b == nil {
		return a == b
	}
	if a.K != b.K {
		return false
	}
	switch a.K {
	case Bool:
		return a.B == b.B
	case Num, Str:
		return a.S == b.S
	case Obj:
		if len(a.Keys) != len(b.Keys) {
			return false
		}
		for i := range a.Keys {
			if a.Keys[i] != b.Keys[i] || !Equal(a.Vals[i], b.Vals[i]) {
				return false
			}
		}
	case Arr:
		if len(a.Vals) != len(b.Vals) {
			return false
		}
		for i := range a.Vals {
			if !Equal(a.Vals[i], b.Vals[i]) {
				return false
			}
		}
	}
	return true
}

// PathSig abstracts a path into a signature: array indices become "[]".
func PathSig(path []string) string {
	var sb strings.Builder
	for i, p := range path {
		if strings.HasPrefix(p, "[") {
			sb.WriteString("[]")
			continue
		}
		if i > 0 {
			sb.WriteByte('.')
		}
		sb.WriteString(p)
	}
	return sb.String()
}

func PathStr(path []string) string { return strings.Join(path, "/") }
