package gen

import (
	"fmt"

	. "verif/jt"
)

// Additions of the sixth round of seeded changes (DESIGN §9.4 round 6).

// EnvelopeKinds: log entries in which ONE member of the envelope holds a value of another JSON
// kind than the server writes there (attr a string, attr.command an array, c a number, ...). The
// whole entry is KEEP: nothing in it is a query-bearing field any more, or it never was one; only
// the namespace / remote positions that stay strings keep their roles.
func (g *Gen) EnvelopeKinds() []*Node {
	kinds := func() []*Node {
		return []*Node{NullN(), BoolN(true), BoolN(false), IntN(0), NumN("7469113720208097282"), NumN("-1.50e3"), StrN("text"), StrN(""), StrN("db1.c"),
			{K: Arr, Vals: []*Node{}}, ArrN(IntN(1), StrN("a"), ObjN("b", NullN())), ArrN(ObjN("find", StrN("c"), "filter", ObjN())), ObjN(), ObjN("x", IntN(1), "a", &Node{K: Arr, Vals: []*Node{}})}
	}
	paths := [][]string{{"attr"}, {"attr", "command"}, {"attr", "originatingCommand"}, {"attr", "cmd"}, {"attr", "ns"}, {"attr", "remote"}, {"attr", "planSummary"},
		{"c"}, {"msg"}, {"t"}, {"id"}, {"s"}, {"ctx"}, {"attr", "command", "$db"}, {"attr", "command", "find"}, {"attr", "type"}}
	var out []*Node
	for _, comp := range []string{"COMMAND", "NETWORK", "WRITE"} {
		for _, p := range paths {
			for _, k := range kinds() {
				line := ObjN("t", ObjN("$date", StrN(g.ISODate())), "s", StrN("I"), "c", StrN(comp), "id", IntN(51803), "ctx", StrN("conn"+fmt.Sprint(g.rng(1, 9999))), "msg", StrN("Slow query"),
					"attr", ObjN("type", StrN("command"), "ns", StrN("db1.c").With(&Tag{Role: NsFull}), "remote", StrN("10.1.2.3:4567").With(&Tag{Role: Remote}),
						"command", ObjN("find", StrN("c").With(&Tag{Role: NsColl}), "filter", ObjN(), "limit", IntN(3), "$db", StrN("db1").With(&Tag{Role: NsDB})),
						"nreturned", IntN(0), "durationMillis", IntN(12)))
				line.T = &Tag{Role: Keep}
				n := line
				for i, key := range p {
					if i == len(p)-1 {
						v := k.Clone()
						if len(p) == 2 && (p[1] == "planSummary") && v.K == Str {
							v.T = &Tag{Role: Free} // a string there is a plan summary (may be rewritten under -f)
						}
						if len(p) == 2 && p[1] == "ns" && v.K == Str {
							v.T = &Tag{Role: NsFull}
						}
						if len(p) == 2 && p[1] == "remote" && v.K == Str {
							v.T = &Tag{Role: Remote}
						}
						if len(p) == 3 && v.K == Str {
							v.T = &Tag{Role: Free} // a string at a namespace-bearing command member: C12's business
						}
						if len(p) == 2 && (p[1] == "command" || p[1] == "originatingCommand" || p[1] == "cmd") && v.K == Obj {
							v.T = &Tag{Role: Keep} // a command document without any query-bearing field
						}
						n.Set(key, v)
					} else {
						n = n.Get(key)
					}
				}
				out = append(out, line)
			}
		}
	}
	return out
}

func init() {
	// text that only LOOKS like an escape sequence, an HTML entity or a network address: inside a
	// JSON string (or key) all of it is just characters
	SyntaxLookalikes = append(SyntaxLookalikes,
		`& < >`, `a&b`, `x<y>z`, `\u0000`, `\ud800`, `a\u0026b \u003c \u003e`, `\u2028\u2029 \u007f \U0001F600`, `\\u0026`, `\n\t\"`, `\\`, `&amp; &lt; &gt; &quot; &#39;`, `<b>&</b>`, `%s %d %v %!s(MISSING)`,
		`10.1.2.3:27017`, `peer 192.168.0.7:27018 down`, `[::1]:27017`, `[2001:db8::7]:27019`, `mongo-0.svc.cluster.local:27017`, `255.255.255.255:65535 `, `1.2.3.4`, `1.2.3.4:`,
		"\x1b[31mred\x1b[0m", "bell\x07 vt\x0b ff\x0c del\x7f", "tag\U000E0001 pua\U000F0000 nonchar\ufffe", "\ufeffbom", "mid\ufeffbom", "bom\ufeff",
	)

	// $vectorSearch whose query vector is BSON binary (BinData vector, subType 09) instead of an
	// array of numbers: the payload is a client literal; at the top level and opening a sub-pipeline
	vecBin := func(g *Gen, slot string) *Node {
		return ObjN("$vectorSearch", ObjN("index", KeepS("v_bin"), "path", g.path(), "queryVector", ObjN("$binary", ObjN("base64", sens(StrN(g.B64()), "b64", slot), "subType", KeepS("09"))), "numCandidates", KeepI(50), "limit", KeepI(5)))
	}
	slotBuilders = append(slotBuilders,
		slotBuilder{"vector-binary", "aggregate", aggWith(func(g *Gen, l func() *Node) []*Node {
			return []*Node{vecBin(g, "cat-vector-binary"), ObjN("$match", ObjN("m", l()))}
		})},
		slotBuilder{"vector-binary-nested", "aggregate", aggWith(func(g *Gen, l func() *Node) []*Node {
			return []*Node{ObjN("$match", ObjN("m", l())),
				ObjN("$unionWith", ObjN("coll", g.nsColl(), "pipeline", ArrN(vecBin(g, "cat-vector-binary-union"), ObjN("$limit", KeepI(2))))),
				ObjN("$lookup", ObjN("from", g.nsColl(), "pipeline", ArrN(vecBin(g, "cat-vector-binary-lookup")), "as", FreeS("j")))}
		})},
	)
}

// BoundaryLines: long lines (33 KB .. 62 KB, below the reader's limit) whose strings and keys alternate one
// significant character with one kind of white space all the way through, so that whatever fixed-size
// pieces a reader cuts a line into (4 KiB, 32 KiB, ...), one side of every cut is a blank that belongs
// to the data. Outside the zones (whole line KEEP) and as the non-zone part of a command line.
func (g *Gen) BoundaryLines() []*Node {
	alt := func(n int, sp string) string {
		b := make([]byte, 0, n+8)
		for i := 0; len(b) < n; i++ {
			b = append(b, "abcdefghijklmnopqrstuvwxyz"[i%26])
			b = append(b, sp...)
		}
		return string(b)
	}
	var out []*Node
	for i, n := range []int{33000, 40000, 50000, 62000} {
		for j, sp := range []string{" ", "  ", "\u00a0", "\u3000", " \u2003"} {
			// an odd and an even start offset: the head of the line shifts the pattern by one byte
			if sp[0] > 0x7f || len(sp) > 2 {
				if n > 9000 {
					n = 9000 + 1000*i // non-ASCII white space may be written as \uXXXX escapes (6 bytes each): stay below the line limit
				}
			}
			pad := StrN("p")
			if (i+j)%2 == 1 {
				pad = StrN("pp")
			}
			out = append(out, ObjN("t", ObjN("$date", StrN(g.ISODate())), "s", StrN("I"), "c", StrN("STORAGE"), "id", IntN(22430), "ctx", StrN("conn5"), "msg", StrN("WiredTiger message"),
				"attr", ObjN("pad", pad, "message", StrN(alt(n, sp)), alt(300, sp)+"k", IntN(1))).With(&Tag{Role: Keep}))
			line := ObjN("t", keep(ObjN("$date", StrN(g.ISODate()))), "s", KeepS("I"), "c", KeepS("COMMAND"), "id", KeepI(51803), "ctx", KeepS("conn9"), "msg", KeepS("Slow query"),
				"attr", ObjN("type", KeepS("command"), "ns", StrN("db1.c").With(&Tag{Role: NsFull}), "appName", KeepS(alt(n-2000, sp)),
					"command", ObjN("find", StrN("c").With(&Tag{Role: NsColl}), "filter", ObjN(alt(120, sp)+"f", sens(StrN(g.Token()), "str", "boundary-filter")), "comment", KeepS(alt(1500, sp)), "$db", StrN("db1").With(&Tag{Role: NsDB})),
					"errMsg", KeepS(alt(400, sp))))
			out = append(out, line)
		}
	}
	return out
}
