package gen

import (
	"fmt"
	. "verif/jt"
)

// Catalogue is the systematic part of the corpus: every value slot of the
// grammar (DESIGN Appendix A) × every literal class, one line each, so that
// no (slot, class) cell depends on the luck of the random generator.

type slotBuilder struct {
	Name string
	Verb string
	Mk   func(g *Gen, lit func() *Node, coll, db string) *Node // returns the command document
}

func cmdTail(c *Node, db string) *Node {
	c.Set("lsid", keep(ObjN("id", ObjN("$uuid", StrN("7938452b-c804-4245-8eed-000000000001")))))
	c.Set("$db", StrN(db).With(&Tag{Role: NsDB}))
	return c
}

func collN(coll string) *Node { return StrN(coll).With(&Tag{Role: NsColl}) }

func findWith(filter func(g *Gen, lit func() *Node) *Node) func(g *Gen, lit func() *Node, coll, db string) *Node {
	return func(g *Gen, lit func() *Node, coll, db string) *Node {
		return cmdTail(ObjN("find", collN(coll), "filter", filter(g, lit)), db)
	}
}

func aggWith(stages func(g *Gen, lit func() *Node) []*Node) func(g *Gen, lit func() *Node, coll, db string) *Node {
	return func(g *Gen, lit func() *Node, coll, db string) *Node {
		return cmdTail(ObjN("aggregate", collN(coll), "pipeline", ArrN(stages(g, lit)...), "cursor", keep(ObjN())), db)
	}
}

func searchWith(op func(g *Gen, lit func() *Node) *Node) func(g *Gen, lit func() *Node, coll, db string) *Node {
	return aggWith(func(g *Gen, lit func() *Node) []*Node {
		o := op(g, lit)
		st := ObjN("index", KeepS("idx_cat"))
		st.Set(o.Keys[0], o.Vals[0])
		return []*Node{ObjN(g.pick("$search", "$searchMeta"), st), ObjN("$limit", KeepI(7))}
	})
}

func updWith(u func(g *Gen, lit func() *Node) *Node) func(g *Gen, lit func() *Node, coll, db string) *Node {
	return func(g *Gen, lit func() *Node, coll, db string) *Node {
		return cmdTail(ObjN("update", collN(coll), "updates", ArrN(ObjN("q", ObjN("k", sens(NumN(g.Number()), "num", "cat-q")), "u", u(g, lit), "multi", FreeB(false))), "ordered", keep(BoolN(true))), db)
	}
}

var slotBuilders = []slotBuilder{
	{"filter-direct", "find", findWith(func(g *Gen, l func() *Node) *Node { return ObjN(g.Field(), l()) })},
	{"filter-nested-doc", "find", findWith(func(g *Gen, l func() *Node) *Node { return ObjN("meta", ObjN("inner", ObjN("leaf", l()))) })},
	{"under-cmp", "find", findWith(func(g *Gen, l func() *Node) *Node {
		return ObjN(g.Field(), ObjN(g.pick("$eq", "$ne", "$gt", "$gte", "$lt", "$lte"), l()))
	})},
	{"in-array", "find", findWith(func(g *Gen, l func() *Node) *Node {
		return ObjN(g.Field(), ObjN(g.pick("$in", "$nin", "$all"), ArrN(l(), l())))
	})},
	{"in-array-nested", "find", findWith(func(g *Gen, l func() *Node) *Node {
		return ObjN(g.Field(), ObjN("$in", ArrN(ArrN(l()), ArrN(ArrN(l()), l()))))
	})},
	{"array-valued-field", "find", findWith(func(g *Gen, l func() *Node) *Node { return ObjN(g.Field(), ArrN(l(), ObjN("sub", l()))) })},
	{"elemMatch", "find", findWith(func(g *Gen, l func() *Node) *Node {
		return ObjN("items", ObjN("$elemMatch", ObjN("sku", l(), "n", ObjN("$gt", l()))))
	})},
	{"under-not", "find", findWith(func(g *Gen, l func() *Node) *Node { return ObjN(g.Field(), ObjN("$not", ObjN("$gte", l()))) })},
	{"and-or-nor", "find", findWith(func(g *Gen, l func() *Node) *Node {
		return ObjN(g.pick("$and", "$or", "$nor"), ArrN(ObjN("a", l()), ObjN("$or", ArrN(ObjN("b", ObjN("$lt", l()))))))
	})},
	{"filter-expr", "find", findWith(func(g *Gen, l func() *Node) *Node { return ObjN("$expr", ObjN("$eq", ArrN(g.Ref(), l()))) })},
	{"count-query", "count", func(g *Gen, l func() *Node, coll, db string) *Node {
		return cmdTail(ObjN("count", collN(coll), "query", ObjN(g.Field(), l())), db)
	}},
	{"fam-query", "findAndModify", func(g *Gen, l func() *Node, coll, db string) *Node {
		return cmdTail(ObjN("findAndModify", collN(coll), "query", ObjN("k", l()), "update", ObjN("$set", ObjN("v", l())), "new", keep(BoolN(true))), db)
	}},
	{"fam-update-pipeline", "findAndModify", func(g *Gen, l func() *Node, coll, db string) *Node {
		return cmdTail(ObjN("findAndModify", collN(coll), "query", ObjN("k", l()), "update", ArrN(ObjN("$set", ObjN("v", l())))), db)
	}},
	{"update-set", "update", updWith(func(g *Gen, l func() *Node) *Node {
		return ObjN(g.pick("$set", "$setOnInsert", "$min", "$max"), ObjN(g.Field(), l()))
	})},
	{"update-push", "update", updWith(func(g *Gen, l func() *Node) *Node { return ObjN(g.pick("$push", "$addToSet"), ObjN("tags", l())) })},
	{"push-each", "update", updWith(func(g *Gen, l func() *Node) *Node {
		return ObjN(g.pick("$push", "$addToSet"), ObjN("tags", ObjN("$each", ArrN(l(), l()))))
	})},
	{"pull-in", "update", updWith(func(g *Gen, l func() *Node) *Node { return ObjN("$pull", ObjN("tags", ObjN("$in", ArrN(l(), l())))) })},
	{"pullAll", "update", updWith(func(g *Gen, l func() *Node) *Node { return ObjN("$pullAll", ObjN("tags", ArrN(l(), l()))) })},
	{"update-replacement", "update", updWith(func(g *Gen, l func() *Node) *Node { return ObjN("name", l(), "nested", ObjN("x", ArrN(l()))) })},
	{"update-pipeline", "update", updWith(func(g *Gen, l func() *Node) *Node {
		return ArrN(ObjN("$set", ObjN("v", l())), ObjN("$replaceWith", ObjN("w", ObjN("$ifNull", ArrN(g.Ref(), l())))))
	})},
	{"filter-deep-nesting", "find", findWith(func(g *Gen, l func() *Node) *Node {
		// sub-documents nested beyond the server's 100-level BSON limit counted from the LINE root
		// (attr.command.filter adds levels of its own), keys deliberately not in sorted order
		depth := []int{96, 101, 129, 260}[g.R.Intn(4)]
		inner := ObjN("zeta", l(), "alpha", l(), "mid", ArrN(l(), ObjN("y", l(), "b", l())))
		for i := depth; i > 0; i-- {
			if i%25 == 0 {
				inner = ObjN(fmt.Sprintf("z%d", i), l(), "d", inner, fmt.Sprintf("a%d", i), l())
			} else {
				inner = ObjN("d", inner)
			}
		}
		return ObjN("root", inner)
	})},
	{"large-arrays", "find", findWith(func(g *Gen, l func() *Node) *Node {
		// operator arrays and array-valued fields with more than 1 000 / 4 096 members
		mk := func(n int) *Node {
			a := ArrN()
			for i := 0; i < n; i++ {
				if i < 4 || i >= n-4 || i%97 == 0 {
					a.Vals = append(a.Vals, l())
				} else {
					a.Vals = append(a.Vals, sens(NumN(g.Number()), "num", "cat-large-array"))
				}
			}
			return a
		}
		return ObjN(g.Field(), ObjN(g.pick("$in", "$nin", "$all"), mk(1001+g.R.Intn(300))), "tags", mk(1030+g.R.Intn(100)))
	})},
	{"mixed-string-lists", "update", func(g *Gen, l func() *Node, coll, db string) *Node {
		// lists of 32+ plain strings that MIX e-mail-shaped and ordinary members (logins): each member
		// gets the placeholder of its own class
		mk := func(n int, slot string) *Node {
			a := ArrN()
			for i := 0; i < n; i++ {
				cl := "str"
				if (i+n)%3 == 0 {
					cl = "email"
				}
				a.Vals = append(a.Vals, g.LitClass(cl, "cat-mixed-"+slot))
			}
			return a
		}
		st := ObjN("q", ObjN("login", ObjN(g.pick("$in", "$nin"), mk(33+g.R.Intn(20), "in"))), "u", ObjN("$addToSet", ObjN("contacts", ObjN("$each", mk(40, "each"))), "$set", ObjN("aliases", mk(35, "array-field"), "first", l())), "multi", FreeB(false))
		return cmdTail(ObjN("update", collN(coll), "updates", ArrN(st), "ordered", keep(BoolN(true))), db)
	}},
	{"mixed-string-lists-agg", "aggregate", aggWith(func(g *Gen, l func() *Node) []*Node {
		mk := func(n int, slot string) *Node {
			a := ArrN()
			for i := 0; i < n; i++ {
				cl := "email"
				if (i+n)%4 == 0 {
					cl = "str"
				}
				a.Vals = append(a.Vals, g.LitClass(cl, "cat-mixed-"+slot))
			}
			return a
		}
		return []*Node{ObjN("$search", ObjN("index", KeepS("idx_mixed"), "in", ObjN("path", FreeS("login"), "value", mk(36, "search-in")))), ObjN("$match", ObjN("login", ObjN("$in", mk(34, "match-in")), "x", l()))}
	})},
	{"match-large-in", "aggregate", aggWith(func(g *Gen, l func() *Node) []*Node {
		a := ArrN()
		for i, n := 0, 1002+g.R.Intn(200); i < n; i++ {
			if i < 3 || i >= n-3 {
				a.Vals = append(a.Vals, l())
			} else {
				a.Vals = append(a.Vals, sens(NumN(g.Number()), "num", "cat-large-array"))
			}
		}
		return []*Node{ObjN("$match", ObjN(g.Field(), ObjN("$in", a)))}
	})},
	{"update-pipeline-constants", "update", func(g *Gen, l func() *Node, coll, db string) *Node {
		// pipeline-style update statement with its constants document `c` (values reachable as $$k in the pipeline)
		st := ObjN("q", ObjN("k", l()), "u", ArrN(ObjN("$set", ObjN("v", FreeS("$$k"), "w", l()))), "c", ObjN("k", l(), "nested", ObjN("x", l(), "arr", ArrN(l()))), "multi", FreeB(false))
		return cmdTail(ObjN("update", collN(coll), "updates", ArrN(st), "ordered", keep(BoolN(true))), db)
	}},
	{"delete-q", "delete", func(g *Gen, l func() *Node, coll, db string) *Node {
		return cmdTail(ObjN("delete", collN(coll), "deletes", ArrN(ObjN("q", ObjN(g.Field(), l(), "z", ObjN("$in", ArrN(l()))), "limit", FreeI(0))), "ordered", keep(BoolN(true))), db)
	}},
	{"insert-doc", "insert", func(g *Gen, l func() *Node, coll, db string) *Node {
		doc := ObjN("_id", l(), "f", l(), "sub", ObjN("arr", ArrN(l(), ArrN(l()), ObjN("deep", l()))))
		return cmdTail(ObjN("insert", collN(coll), "documents", ArrN(doc), "ordered", keep(BoolN(true))), db)
	}},
	{"insert-batch-large", "insert", func(g *Gen, l func() *Node, coll, db string) *Node {
		// bulk writes: batch sizes around powers of two and not divisible by small worker counts
		docs := ArrN()
		for i, n := 0, g.pick2(65, 70)+g.R.Intn(3)*31; i < n; i++ {
			docs.Vals = append(docs.Vals, ObjN("_id", sens(NumN(g.Number()), "num", "cat-batch"), "v", l()))
		}
		return cmdTail(ObjN("insert", collN(coll), "documents", docs, "ordered", keep(BoolN(false))), db)
	}},
	{"update-batch-large", "update", func(g *Gen, l func() *Node, coll, db string) *Node {
		us := ArrN()
		for i, n := 0, 67+g.R.Intn(40); i < n; i++ {
			us.Vals = append(us.Vals, ObjN("q", ObjN("k", l()), "u", ObjN("$set", ObjN("v", l())), "multi", FreeB(false)))
		}
		return cmdTail(ObjN("update", collN(coll), "updates", us, "ordered", keep(BoolN(false))), db)
	}},
	{"delete-batch-large", "delete", func(g *Gen, l func() *Node, coll, db string) *Node {
		ds := ArrN()
		for i, n := 0, 66+g.R.Intn(60); i < n; i++ {
			ds.Vals = append(ds.Vals, ObjN("q", ObjN("k", l()), "limit", FreeI(1)))
		}
		return cmdTail(ObjN("delete", collN(coll), "deletes", ds, "ordered", keep(BoolN(false))), db)
	}},
	{"wupdate", "wupdate", func(g *Gen, l func() *Node, coll, db string) *Node {
		return ObjN("q", ObjN("k", l()), "u", ObjN("$set", ObjN("v", l())), "multi", keep(BoolN(false)), "upsert", keep(BoolN(false)))
	}},
	{"wremove", "wremove", func(g *Gen, l func() *Node, coll, db string) *Node {
		return ObjN("q", ObjN("k", ObjN("$in", ArrN(l()))), "limit", KeepI(0))
	}},
	{"match-direct", "aggregate", aggWith(func(g *Gen, l func() *Node) []*Node { return []*Node{ObjN("$match", ObjN(g.Field(), l()))} })},
	{"match-cmp", "aggregate", aggWith(func(g *Gen, l func() *Node) []*Node {
		return []*Node{ObjN("$match", ObjN(g.Field(), ObjN(g.pick("$eq", "$ne", "$gt", "$lte"), l())))}
	})},
	{"match-in", "aggregate", aggWith(func(g *Gen, l func() *Node) []*Node {
		return []*Node{ObjN("$match", ObjN(g.Field(), ObjN("$in", ArrN(l(), l()))))}
	})},
	{"match-and", "aggregate", aggWith(func(g *Gen, l func() *Node) []*Node {
		return []*Node{ObjN("$match", ObjN("$and", ArrN(ObjN("a", ObjN("$ne", l())), ObjN("b", l()))))}
	})},
	{"match-expr", "aggregate", aggWith(func(g *Gen, l func() *Node) []*Node {
		return []*Node{ObjN("$match", ObjN("$expr", ObjN("$and", ArrN(ObjN("$eq", ArrN(g.Ref(), l())), ObjN("$gt", ArrN(g.Ref(), l()))))))}
	})},
	{"pipeline-stray-elements", "aggregate", aggWith(func(g *Gen, l func() *Node) []*Node {
		// a pipeline the server rejects but still logs (failed command / error report): members that
		// are not stage documents — a bare literal, an array — next to ordinary stages, at the top
		// level and inside sub-pipelines. They are client-supplied literals inside the pipeline.
		sub := ArrN(l(), ObjN("$match", ObjN("s", l())), ArrN(l()))
		return []*Node{ObjN("$match", ObjN("a", l())), l(), ArrN(l(), ObjN("k", l())), ObjN("$facet", ObjN("fa", sub)), ObjN("$limit", KeepI(3)), l()}
	})},
	{"addFields-literal", "aggregate", aggWith(func(g *Gen, l func() *Node) []*Node {
		return []*Node{ObjN(g.pick("$addFields", "$set"), ObjN("nf", l()))}
	})},
	{"addFields-cond", "aggregate", aggWith(func(g *Gen, l func() *Node) []*Node {
		return []*Node{ObjN("$addFields", ObjN("nf", ObjN("$cond", ObjN("if", ObjN("$eq", ArrN(g.Ref(), l())), "then", l(), "else", l()))))}
	})},
	{"addFields-cond-array", "aggregate", aggWith(func(g *Gen, l func() *Node) []*Node {
		return []*Node{ObjN("$addFields", ObjN("nf", ObjN("$cond", ArrN(ObjN("$gte", ArrN(g.Ref(), l())), l(), l()))))}
	})},
	{"project-switch", "aggregate", aggWith(func(g *Gen, l func() *Node) []*Node {
		return []*Node{ObjN("$project", ObjN("lvl", ObjN("$switch", ObjN("branches", ArrN(ObjN("case", ObjN("$eq", ArrN(g.Ref(), l())), "then", l())), "default", l()))))}
	})},
	{"project-literal", "aggregate", aggWith(func(g *Gen, l func() *Node) []*Node {
		return []*Node{ObjN("$project", ObjN("c", ObjN("$literal", l())))}
	})},
	{"group-id", "aggregate", aggWith(func(g *Gen, l func() *Node) []*Node {
		return []*Node{ObjN("$group", ObjN("_id", ObjN("k", ObjN("$ifNull", ArrN(g.Ref(), l()))), "vals", ObjN("$push", l()), "n", ObjN("$sum", ObjN("$cond", ArrN(ObjN("$eq", ArrN(g.Ref(), l())), sens(NumN(g.Number()), "num", "cat"), sens(NumN(g.Number()), "num", "cat"))))))}
	})},
	{"lookup-let", "aggregate", aggWith(func(g *Gen, l func() *Node) []*Node {
		return []*Node{ObjN("$lookup", ObjN("from", g.nsColl(), "let", ObjN("v", l()), "pipeline", ArrN(ObjN("$match", ObjN("j", l())), ObjN("$limit", KeepI(3))), "as", FreeS("j")))}
	})},
	{"lookup-pipeline-nested", "aggregate", aggWith(func(g *Gen, l func() *Node) []*Node {
		inner := ArrN(ObjN("$match", ObjN("k", ObjN("$in", ArrN(l())))), ObjN("$addFields", ObjN("z", l())))
		return []*Node{ObjN("$lookup", ObjN("from", g.nsColl(), "pipeline", ArrN(ObjN("$lookup", ObjN("from", g.nsColl(), "pipeline", inner, "as", FreeS("jj")))), "as", FreeS("j")))}
	})},
	{"facet", "aggregate", aggWith(func(g *Gen, l func() *Node) []*Node {
		return []*Node{ObjN("$facet", ObjN("fa", ArrN(ObjN("$match", ObjN("a", l())), ObjN("$skip", KeepI(4))), "fb", ArrN(ObjN("$addFields", ObjN("b", l())))))}
	})},
	{"unionWith", "aggregate", aggWith(func(g *Gen, l func() *Node) []*Node {
		return []*Node{ObjN("$unionWith", ObjN("coll", g.nsColl(), "pipeline", ArrN(ObjN("$match", ObjN("u", l())))))}
	})},
	{"replaceRoot", "aggregate", aggWith(func(g *Gen, l func() *Node) []*Node {
		return []*Node{ObjN("$replaceRoot", ObjN("newRoot", ObjN("a", l(), "m", ObjN("$mergeObjects", ArrN(g.Ref(), ObjN("x", l()))))))}
	})},
	{"replaceWith", "aggregate", aggWith(func(g *Gen, l func() *Node) []*Node { return []*Node{ObjN("$replaceWith", ObjN("a", l()))} })},
	{"bucket", "aggregate", aggWith(func(g *Gen, l func() *Node) []*Node {
		return []*Node{ObjN("$bucket", ObjN("groupBy", ObjN("$concat", ArrN(g.Ref(), l())), "boundaries", ArrN(l(), l()), "default", l(), "output", ObjN("c", ObjN("$push", l()))))}
	})},
	{"sortByCount", "aggregate", aggWith(func(g *Gen, l func() *Node) []*Node {
		return []*Node{ObjN("$sortByCount", ObjN("$ifNull", ArrN(g.Ref(), l())))}
	})},
	{"merge-whenMatched", "aggregate", aggWith(func(g *Gen, l func() *Node) []*Node {
		return []*Node{ObjN("$merge", ObjN("into", g.nsColl(), "let", ObjN("v", l()), "whenMatched", ArrN(ObjN("$addFields", ObjN("x", l())))))}
	})},
	{"documents-stage", "aggregate", aggWith(func(g *Gen, l func() *Node) []*Node {
		return []*Node{ObjN("$documents", ArrN(ObjN("a", l(), "b", ArrN(l()))))}
	})},
	{"graphLookup", "aggregate", aggWith(func(g *Gen, l func() *Node) []*Node {
		return []*Node{ObjN("$graphLookup", ObjN("from", g.nsColl(), "startWith", ObjN("$ifNull", ArrN(g.Ref(), l())), "connectFromField", FreeS("a"), "connectToField", FreeS("b"), "as", FreeS("c"), "restrictSearchWithMatch", ObjN("r", l())))}
	})},
	{"graphLookup-startWith-literal", "aggregate", aggWith(func(g *Gen, l func() *Node) []*Node {
		return []*Node{ObjN("$graphLookup", ObjN("from", g.nsColl(), "startWith", l(), "connectFromField", FreeS("a"), "connectToField", FreeS("b"), "as", FreeS("c")))}
	})},
	{"graphLookup-startWith-array", "aggregate", aggWith(func(g *Gen, l func() *Node) []*Node {
		return []*Node{ObjN("$facet", ObjN("g", ArrN(ObjN("$graphLookup", ObjN("from", g.nsColl(), "startWith", ArrN(l(), l()), "connectFromField", FreeS("a"), "connectToField", FreeS("b"), "as", FreeS("c"))))))}
	})},
	{"geoNear-query", "aggregate", aggWith(func(g *Gen, l func() *Node) []*Node {
		return []*Node{ObjN("$geoNear", ObjN("near", ObjN("type", FreeS("Point"), "coordinates", g.coord()), "distanceField", FreeS("d"), "query", ObjN("q", l())))}
	})},
	{"setWindowFields", "aggregate", aggWith(func(g *Gen, l func() *Node) []*Node {
		return []*Node{ObjN("$setWindowFields", ObjN("partitionBy", ObjN("$ifNull", ArrN(g.Ref(), l())), "sortBy", ObjN("a", FreeI(1)), "output", ObjN("w", ObjN("$push", l(), "window", ObjN("documents", ArrN(FreeS("unbounded"), FreeS("current")))))))}
	})},
	{"fill", "aggregate", aggWith(func(g *Gen, l func() *Node) []*Node {
		return []*Node{ObjN("$fill", ObjN("output", ObjN("f", ObjN("value", l()))))}
	})},
	{"search-equals", "aggregate", searchWith(func(g *Gen, l func() *Node) *Node { return ObjN("equals", ObjN("path", g.path(), "value", l())) })},
	{"search-in", "aggregate", searchWith(func(g *Gen, l func() *Node) *Node { return ObjN("in", ObjN("path", g.path(), "value", ArrN(l(), l()))) })},
	{"search-range", "aggregate", searchWith(func(g *Gen, l func() *Node) *Node {
		return ObjN("range", ObjN("path", g.path(), "gte", l(), "lt", l()))
	})},
	{"search-near", "aggregate", searchWith(func(g *Gen, l func() *Node) *Node {
		return ObjN("near", ObjN("path", g.path(), "origin", l(), "pivot", FreeI(2)))
	})},
	{"search-compound", "aggregate", searchWith(func(g *Gen, l func() *Node) *Node {
		return ObjN("compound", ObjN("must", ArrN(ObjN("equals", ObjN("path", g.path(), "value", l()))), "filter", ArrN(ObjN("range", ObjN("path", g.path(), "gt", l()))), "should", ArrN(ObjN("in", ObjN("path", g.path(), "value", ArrN(l()))))))
	})},
	{"search-embedded", "aggregate", searchWith(func(g *Gen, l func() *Node) *Node {
		return ObjN("embeddedDocument", ObjN("path", g.path(), "operator", ObjN("compound", ObjN("mustNot", ArrN(ObjN("equals", ObjN("path", g.path(), "value", l())))))))
	})},
	{"search-facet-operator", "aggregate", aggWith(func(g *Gen, l func() *Node) []*Node {
		return []*Node{ObjN("$searchMeta", ObjN("index", KeepS("idx_cat"), "facet", ObjN("operator", ObjN("equals", ObjN("path", g.path(), "value", l())), "facets", ObjN("f1", ObjN("type", FreeS("string"), "path", g.path())))))}
	})},
	{"vector-filter", "aggregate", aggWith(func(g *Gen, l func() *Node) []*Node {
		return []*Node{ObjN("$vectorSearch", ObjN("index", KeepS("v_cat"), "path", g.path(), "queryVector", ArrN(sens(NumN(g.Number()), "num", "vector")), "numCandidates", KeepI(50), "limit", KeepI(5),
			"filter", ObjN(g.Field(), l(), "o", ObjN(g.pick("$eq", "$gte", "$ne"), l()), "i", ObjN("$in", ArrN(l())), "$and", ArrN(ObjN("w", l())))))}
	})},
	{"rankFusion", "aggregate", aggWith(func(g *Gen, l func() *Node) []*Node {
		p1 := ArrN(ObjN("$search", ObjN("index", FreeS("si"), "equals", ObjN("path", g.path(), "value", l()))), ObjN("$match", ObjN("m", l())))
		return []*Node{ObjN("$rankFusion", ObjN("input", ObjN("pipelines", ObjN("pa", p1))))}
	})},
}

// CatalogueClasses are the literal classes crossed with every slot.
var CatalogueClasses = []string{"str", "email", "date", "oid", "b64", "num", "bool", "wrapnum", "regex", "ts", "uuid", "datelong"}

// SlotNames lists the catalogue's slot builders.
func SlotNames() []string {
	var n []string
	for _, b := range slotBuilders {
		n = append(n, b.Name)
	}
	return n
}

// Catalogue returns one case per slot × class (× reps), carriers and
// components cycling.
func (g *Gen) Catalogue(reps int) []*Case {
	var out []*Case
	i := 0
	for r := 0; r < reps; r++ {
		for _, b := range slotBuilders {
			for _, cl := range CatalogueClasses {
				slot := "cat-" + b.Name
				cl := cl
				lit := func() *Node { return g.LitClass(cl, slot) }
				db, coll := "db"+g.letters(5), "coll"+g.letters(5)
				cmd := b.Mk(g, lit, coll, db)
				car := Carriers[i%len(Carriers)]
				comp := Comps[(i/3)%3] // COMMAND QUERY WRITE
				out = append(out, g.Case(CaseOpts{Verb: b.Verb, Carrier: car, Comp: comp, DB: db, Coll: coll, Cmd: cmd}))
				i++
			}
		}
	}
	return out
}

// KeywordCatalogue: every keyword-like name used as a USER FIELD NAME in the
// query-predicate / update / insert / $match / $vectorSearch.filter slots,
// with a plain string literal (and one nested document) as its value.
func (g *Gen) KeywordCatalogue() []*Case {
	var out []*Case
	i := 0
	for _, k := range KeywordFields {
		for si := 0; si < 9; si++ {
			slot := "kw-" + []string{"filter", "match", "vector-filter", "update-set", "insert", "match-nested", "after-search", "after-search-nested", "search-like"}[si]
			l := func() *Node { return g.LitClass("str", slot) }
			db, coll := "db"+g.letters(5), "coll"+g.letters(5)
			var cmd *Node
			verb := "aggregate"
			switch si {
			case 0:
				verb = "find"
				cmd = cmdTail(ObjN("find", collN(coll), "filter", ObjN(k, l(), "plain", ObjN(k, l()))), db)
			case 1:
				cmd = cmdTail(ObjN("aggregate", collN(coll), "pipeline", ArrN(ObjN("$match", ObjN(k, l(), "o", ObjN("$or", ArrN(ObjN(k, ObjN("$ne", l()))))))), "cursor", keep(ObjN())), db)
			case 2:
				vs := ObjN("index", KeepS("v_kw"), "path", g.path(), "queryVector", ArrN(sens(NumN(g.Number()), "num", "vector")), "numCandidates", KeepI(50), "limit", KeepI(5),
					"filter", ObjN(k, l(), "w", ObjN("$and", ArrN(ObjN(k, ObjN("$eq", l()))))))
				cmd = cmdTail(ObjN("aggregate", collN(coll), "pipeline", ArrN(ObjN("$vectorSearch", vs)), "cursor", keep(ObjN())), db)
			case 3:
				verb = "update"
				cmd = cmdTail(ObjN("update", collN(coll), "updates", ArrN(ObjN("q", ObjN(k, l()), "u", ObjN("$set", ObjN(k, l())), "multi", FreeB(false))), "ordered", keep(BoolN(true))), db)
			case 4:
				verb = "insert"
				cmd = cmdTail(ObjN("insert", collN(coll), "documents", ArrN(ObjN(k, l(), "sub", ObjN(k, ArrN(l())))), "ordered", keep(BoolN(true))), db)
			case 5:
				cmd = cmdTail(ObjN("aggregate", collN(coll), "pipeline", ArrN(ObjN("$match", ObjN("doc", ObjN(k, l()))), ObjN("$addFields", ObjN(k, l()))), "cursor", keep(ObjN())), db)
			case 8:
				// moreLikeThis.like holds USER documents (one, or a list): their keys are field names
				like := ObjN(k, l(), "title", l(), "sub", ObjN(k, l()))
				if i%2 == 1 {
					like = ArrN(ObjN(k, l()), ObjN("title", l(), k, ArrN(l())))
				}
				cmd = cmdTail(ObjN("aggregate", collN(coll), "pipeline", ArrN(ObjN("$search", ObjN("index", KeepS("s_kw"), "moreLikeThis", ObjN("like", like)))), "cursor", keep(ObjN())), db)
			case 6, 7:
				// ordinary stages AFTER a leading search stage: their user fields are user fields, whatever
				// they are called (a keyword holding a document whose member is a keyword again: text.path, range.gt …)
				k2 := KeywordFields[(i*7+3)%len(KeywordFields)]
				tail := []*Node{ObjN("$match", ObjN(k, l(), "w", ObjN(k, ObjN(k2, l())))), ObjN("$set", ObjN(k, l(), "v", ObjN(k2, ObjN(k, l()))))}
				var lead *Node
				if i%2 == 0 {
					lead = ObjN("$search", ObjN("index", KeepS("s_kw"), "text", ObjN("query", g.searchQuery("kw-search"), "path", g.path())))
				} else {
					lead = ObjN("$vectorSearch", ObjN("index", KeepS("v_kw"), "path", g.path(), "queryVector", ArrN(sens(NumN(g.Number()), "num", "vector")), "numCandidates", KeepI(50), "limit", KeepI(5)))
				}
				stages := ArrN(append([]*Node{lead}, tail...)...)
				if si == 7 {
					stages = ArrN(ObjN("$match", ObjN("plain", l())), ObjN(g.pick("$unionWith", "$lookup"), ObjN("from", g.nsColl(), "pipeline", stages, "as", FreeS("joined"))))
					if stages.Vals[1].Keys[0] == "$unionWith" {
						stages.Vals[1].Vals[0] = ObjN("coll", g.nsColl(), "pipeline", ArrN(append([]*Node{lead}, tail...)...))
					}
				}
				cmd = cmdTail(ObjN("aggregate", collN(coll), "pipeline", stages, "cursor", keep(ObjN())), db)
			}
			out = append(out, g.Case(CaseOpts{Verb: verb, Carrier: Carriers[i%3], Comp: Comps[(i/3)%3], DB: db, Coll: coll, Cmd: cmd}))
			i++
		}
	}
	return out
}

// SearchCatalogue: every Atlas Search operator × wrapper (top level,
// compound.must, compound.filter+should, embeddedDocument.operator) × a path
// that is one of the ordinary field names. The same operator therefore occurs
// on several paths within one corpus — what history-dependence through shared
// operator tables needs in order to show.
func (g *Gen) SearchCatalogue(paths []string) []*Case {
	type opB struct {
		name string
		mk   func(path string) *Node
	}
	l := func(cl, slot string) *Node { return g.LitClass(cl, "scat-"+slot) }
	P := func(p string) *Node { return FreeS(p) }
	ops := []opB{
		{"text", func(p string) *Node { return ObjN("text", ObjN("query", l("str", "text"), "path", P(p))) }},
		{"phrase", func(p string) *Node {
			return ObjN("phrase", ObjN("query", l("str", "phrase"), "path", P(p), "slop", FreeI(1)))
		}},
		{"autocomplete", func(p string) *Node {
			return ObjN("autocomplete", ObjN("query", l("str", "autocomplete"), "path", P(p)))
		}},
		{"wildcard", func(p string) *Node {
			return ObjN("wildcard", ObjN("query", l("str", "wildcard"), "path", P(p), "allowAnalyzedField", FreeB(true)))
		}},
		{"regex", func(p string) *Node { return ObjN("regex", ObjN("query", l("str", "regex"), "path", P(p))) }},
		{"equals", func(p string) *Node {
			return ObjN("equals", ObjN("path", P(p), "value", l(g.pick("str", "num", "oid", "date", "bool", "b64", "b64", "email"), "equals")))
		}},
		{"in", func(p string) *Node {
			return ObjN("in", ObjN("path", P(p), "value", ArrN(l("str", "in"), l("num", "in"))))
		}},
		{"range", func(p string) *Node {
			return ObjN("range", ObjN("path", P(p), "gte", l("num", "range"), "lt", l("num", "range")))
		}},
		{"range-date", func(p string) *Node { return ObjN("range", ObjN("path", P(p), "gt", l("date", "range"))) }},
		{"near", func(p string) *Node {
			return ObjN("near", ObjN("path", P(p), "origin", l("num", "near"), "pivot", FreeI(2)))
		}},
		{"near-geo", func(p string) *Node {
			return ObjN("near", ObjN("path", P(p), "origin", ObjN("type", FreeS("Point"), "coordinates", g.coord()), "pivot", FreeI(1000)))
		}},
		{"exists", func(p string) *Node { return ObjN("exists", ObjN("path", P(p))) }},
		{"queryString", func(p string) *Node {
			return ObjN("queryString", ObjN("defaultPath", P(p), "query", l("str", "queryString")))
		}},
		{"moreLikeThis", func(p string) *Node { return ObjN("moreLikeThis", ObjN("like", ObjN(p, l("str", "moreLikeThis")))) }},
		{"geoWithin-circle", func(p string) *Node {
			return ObjN("geoWithin", ObjN("path", P(p), "circle", ObjN("center", ObjN("type", FreeS("Point"), "coordinates", g.coord()), "radius", l("num", "geo-radius"))))
		}},
		{"geoWithin-box", func(p string) *Node {
			return ObjN("geoWithin", ObjN("path", P(p), "box", ObjN("bottomLeft", ObjN("type", FreeS("Point"), "coordinates", g.coord()), "topRight", ObjN("type", FreeS("Point"), "coordinates", g.coord()))))
		}},
		{"geoWithin-geometry", func(p string) *Node {
			return ObjN("geoWithin", ObjN("path", P(p), "geometry", ObjN("type", FreeS("Polygon"), "coordinates", ArrN(ArrN(g.coord(), g.coord(), g.coord())))))
		}},
		{"geoShape", func(p string) *Node {
			return ObjN("geoShape", ObjN("path", P(p), "relation", FreeS("intersects"), "geometry", ObjN("type", FreeS("Polygon"), "coordinates", ArrN(ArrN(g.coord(), g.coord(), g.coord())))))
		}},
		{"span-term", func(p string) *Node { return ObjN("span", ObjN("term", ObjN("path", P(p), "query", l("str", "span")))) }},
	}
	var out []*Case
	i := 0
	for _, op := range ops {
		for _, p := range paths {
			for w := 0; w < 7; w++ {
				o := op.mk(p)
				st := ObjN("index", KeepS("idx_scat"))
				switch w {
				case 0:
					st.Set(o.Keys[0], o.Vals[0])
				case 1:
					st.Set("compound", ObjN("must", ArrN(o)))
				case 2:
					st.Set("compound", ObjN("filter", ArrN(o), "should", ArrN(op.mk(p)), "minimumShouldMatch", FreeI(0)))
				case 3:
					st.Set("embeddedDocument", ObjN("path", FreeS("items"), "operator", ObjN("compound", ObjN("mustNot", ArrN(o)))))
				case 4:
					// the operator directly below embeddedDocument.operator (no compound in between)
					st.Set("embeddedDocument", ObjN("path", FreeS("items"), "operator", o, "score", ObjN("embedded", ObjN("aggregate", FreeS("mean")))))
				case 5:
					// compound clauses given as a single document instead of a one-element array
					st.Set("compound", ObjN("must", o, "should", op.mk(p), "mustNot", op.mk(p)))
				case 6:
					st.Set("facet", ObjN("operator", o, "facets", ObjN("f1", ObjN("type", FreeS("string"), "path", FreeS(p), "numBuckets", FreeI(4)))))
				}
				db, coll := "db"+g.letters(5), "coll"+g.letters(5)
				cmd := cmdTail(ObjN("aggregate", collN(coll), "pipeline", ArrN(ObjN(g.pick("$search", "$searchMeta"), st), ObjN("$limit", KeepI(5))), "cursor", keep(ObjN())), db)
				out = append(out, g.Case(CaseOpts{Verb: "aggregate", Carrier: Carriers[i%3], Comp: Comps[(i/3)%3], DB: db, Coll: coll, Cmd: cmd}))
				i++
			}
		}
	}
	return out
}
