package gen

import (
	. "verif/jt"
)

// Selective-mode catalogue (C14): every wrapper between a field name N and a
// literal L, for a given name, crossed with the literal classes.

type selBuilder struct {
	Name string
	Verb string
	Mk   func(g *Gen, N string, l func() *Node, coll, db string) *Node
}

func selFind(f func(g *Gen, N string, l func() *Node) *Node) func(g *Gen, N string, l func() *Node, coll, db string) *Node {
	return func(g *Gen, N string, l func() *Node, coll, db string) *Node {
		return cmdTail(ObjN("find", collN(coll), "filter", f(g, N, l)), db)
	}
}
func selUpd(f func(g *Gen, N string, l func() *Node) *Node) func(g *Gen, N string, l func() *Node, coll, db string) *Node {
	return func(g *Gen, N string, l func() *Node, coll, db string) *Node {
		return cmdTail(ObjN("update", collN(coll), "updates", ArrN(ObjN("q", ObjN("plainq", l()), "u", f(g, N, l), "multi", FreeB(false))), "ordered", keep(BoolN(true))), db)
	}
}
func selAgg(f func(g *Gen, N string, l func() *Node) []*Node) func(g *Gen, N string, l func() *Node, coll, db string) *Node {
	return func(g *Gen, N string, l func() *Node, coll, db string) *Node {
		return cmdTail(ObjN("aggregate", collN(coll), "pipeline", ArrN(f(g, N, l)...), "cursor", keep(ObjN())), db)
	}
}

var selBuilders = []selBuilder{
	{"direct", "find", selFind(func(g *Gen, N string, l func() *Node) *Node { return ObjN(N, l(), "plain1", l()) })},
	{"cmp-op", "find", selFind(func(g *Gen, N string, l func() *Node) *Node {
		return ObjN(N, ObjN(g.pick("$eq", "$ne", "$gt", "$gte", "$lt", "$lte"), l()), "plain1", ObjN("$ne", l()))
	})},
	{"in-array", "find", selFind(func(g *Gen, N string, l func() *Node) *Node {
		return ObjN(N, ObjN(g.pick("$in", "$nin", "$all"), ArrN(l(), l())), "plain1", ObjN("$in", ArrN(l())))
	})},
	{"name-inside-in-members", "find", selFind(func(g *Gen, N string, l func() *Node) *Node {
		// the list hangs under a field that is not selected; its members are sub-documents that HAVE the field
		return ObjN("plainparent", ObjN(g.pick("$in", "$nin"), ArrN(ObjN(N, l(), "plain1", l()), ObjN("plain2", l(), N, ObjN("$gt", l())))),
			"plainlist", ObjN("$elemMatch", ObjN("sub", ObjN("$in", ArrN(ObjN(N, l()), ObjN("plain3", l()))))))
	})},
	{"upd-pull-in-members", "update", selUpd(func(g *Gen, N string, l func() *Node) *Node {
		return ObjN("$pull", ObjN("plainparent", ObjN("$in", ArrN(ObjN(N, l(), "plain1", l())))), "$addToSet", ObjN("plainlist", ObjN("$each", ArrN(ObjN(N, l()), ObjN("plain2", l())))))
	})},
	{"elemMatch", "find", selFind(func(g *Gen, N string, l func() *Node) *Node {
		return ObjN(N, ObjN("$elemMatch", ObjN("sub", l(), "n", ObjN("$gt", l()))))
	})},
	{"not", "find", selFind(func(g *Gen, N string, l func() *Node) *Node { return ObjN(N, ObjN("$not", ObjN("$gte", l()))) })},
	{"array-valued", "find", selFind(func(g *Gen, N string, l func() *Node) *Node { return ObjN(N, ArrN(l(), l()), "plain1", ArrN(l())) })},
	{"array-of-subdocs", "find", selFind(func(g *Gen, N string, l func() *Node) *Node {
		return ObjN(N, ArrN(ObjN("sub", l()), ObjN("sub", ObjN("deep", l()))))
	})},
	{"nested-arrays", "find", selFind(func(g *Gen, N string, l func() *Node) *Node {
		return ObjN(N, ArrN(l(), ArrN(l(), l()), ArrN(ArrN(l()))), "plain1", ArrN(ArrN(l())))
	})},
	{"subdoc", "find", selFind(func(g *Gen, N string, l func() *Node) *Node {
		return ObjN(N, ObjN("sub", ObjN("deep", l())), "plain1", ObjN("sub", l()))
	})},
	{"subdoc-array", "find", selFind(func(g *Gen, N string, l func() *Node) *Node { return ObjN(N, ObjN("sub", ArrN(l(), ObjN("k", l())))) })},
	{"dotted-key", "find", selFind(func(g *Gen, N string, l func() *Node) *Node {
		// dot notation: the same path spelled as ONE key (judged only when unambiguous, see C14)
		return ObjN("outer."+N, l(), "outer.plain2", l(), N+".sub", ObjN("$in", ArrN(l())))
	})},
	{"name-deeper", "find", selFind(func(g *Gen, N string, l func() *Node) *Node {
		return ObjN("outer", ObjN(N, l(), "plain2", l()), "plain1", l())
	})},
	{"and-or", "find", selFind(func(g *Gen, N string, l func() *Node) *Node {
		return ObjN(g.pick("$and", "$or", "$nor"), ArrN(ObjN(N, l()), ObjN("plain1", l()), ObjN("$or", ArrN(ObjN(N, ObjN("$in", ArrN(l()))), ObjN("plain2", ObjN("$in", ArrN(l())))))))
	})},
	{"expr-pair", "find", selFind(func(g *Gen, N string, l func() *Node) *Node {
		return ObjN("$expr", ObjN("$and", ArrN(ObjN("$eq", ArrN(StrN("$"+N).With(&Tag{Role: Ref}), l())), ObjN("$eq", ArrN(StrN("$plain1").With(&Tag{Role: Ref}), l())))))
	})},
	{"count-query", "count", func(g *Gen, N string, l func() *Node, coll, db string) *Node {
		return cmdTail(ObjN("count", collN(coll), "query", ObjN(N, ObjN("$in", ArrN(l())), "plain1", l())), db)
	}},
	{"fam", "findAndModify", func(g *Gen, N string, l func() *Node, coll, db string) *Node {
		return cmdTail(ObjN("findAndModify", collN(coll), "query", ObjN(N, l()), "update", ObjN("$set", ObjN(N, l(), "plain1", l()))), db)
	}},
	{"upd-set", "update", selUpd(func(g *Gen, N string, l func() *Node) *Node {
		return ObjN(g.pick("$set", "$setOnInsert", "$min", "$max"), ObjN(N, l(), "plain1", l()))
	})},
	{"upd-push", "update", selUpd(func(g *Gen, N string, l func() *Node) *Node {
		return ObjN(g.pick("$push", "$addToSet"), ObjN(N, l(), "plain1", l()))
	})},
	{"upd-each", "update", selUpd(func(g *Gen, N string, l func() *Node) *Node {
		return ObjN(g.pick("$push", "$addToSet"), ObjN(N, ObjN("$each", ArrN(l(), l())), "plain1", ObjN("$each", ArrN(l()))))
	})},
	{"upd-pull-in", "update", selUpd(func(g *Gen, N string, l func() *Node) *Node {
		return ObjN("$pull", ObjN(N, ObjN("$in", ArrN(l(), l())), "plain1", ObjN("$in", ArrN(l()))))
	})},
	{"upd-pullAll", "update", selUpd(func(g *Gen, N string, l func() *Node) *Node {
		return ObjN("$pullAll", ObjN(N, ArrN(l(), l()), "plain1", ArrN(l())))
	})},
	{"upd-replacement", "update", selUpd(func(g *Gen, N string, l func() *Node) *Node {
		return ObjN(N, l(), "plain1", l(), "nest", ObjN(N, ArrN(l())))
	})},
	{"delete", "delete", func(g *Gen, N string, l func() *Node, coll, db string) *Node {
		return cmdTail(ObjN("delete", collN(coll), "deletes", ArrN(ObjN("q", ObjN(N, l(), "plain1", ObjN("$in", ArrN(l()))), "limit", FreeI(0)), ObjN("q", ObjN(N, ObjN("$in", ArrN(l(), l()))), "limit", FreeI(1))), "ordered", keep(BoolN(true))), db)
	}},
	{"insert", "insert", func(g *Gen, N string, l func() *Node, coll, db string) *Node {
		doc := ObjN("_idx", l(), N, l(), "plain1", l(), "sub", ObjN(N, ArrN(l(), ObjN("k", l())), "plain2", ArrN(l())))
		doc2 := ObjN(N, ArrN(ArrN(l())), "plain1", ObjN("deep", l()))
		return cmdTail(ObjN("insert", collN(coll), "documents", ArrN(doc, doc2), "ordered", keep(BoolN(true))), db)
	}},
	{"wupdate", "wupdate", func(g *Gen, N string, l func() *Node, coll, db string) *Node {
		return ObjN("q", ObjN(N, ObjN("$in", ArrN(l())), "plain1", l()), "u", ObjN("$set", ObjN(N, l(), "plain2", l())), "multi", keep(BoolN(false)), "upsert", keep(BoolN(false)))
	}},
	{"match", "aggregate", selAgg(func(g *Gen, N string, l func() *Node) []*Node {
		return []*Node{ObjN("$match", ObjN(N, l(), "plain1", l())), ObjN("$match", ObjN(N, ObjN("$in", ArrN(l(), l())), "plain2", ObjN("$nin", ArrN(l()))))}
	})},
	{"match-expr", "aggregate", selAgg(func(g *Gen, N string, l func() *Node) []*Node {
		return []*Node{ObjN("$match", ObjN("$expr", ObjN("$eq", ArrN(StrN("$"+N).With(&Tag{Role: Ref}), l()))))}
	})},
	{"name-set-to-reference", "aggregate", selAgg(func(g *Gen, N string, l func() *Node) []*Node {
		// the (matching or not) name is SET to a bare field reference; literals of other fields in the same stage,
		// in later stages - and in later lines of the run - are under no matching name
		return []*Node{ObjN("$addFields", ObjN(N, StrN("$contact.value").With(&Tag{Role: Ref}), "plain1", l())), ObjN("$match", ObjN("plain2", l())), ObjN("$project", ObjN(N, StrN("$plain3").With(&Tag{Role: Ref}), "plain4", ObjN("$literal", l())))}
	})},
	{"addFields", "aggregate", selAgg(func(g *Gen, N string, l func() *Node) []*Node {
		return []*Node{ObjN("$addFields", ObjN(N, l(), "plain1", l(), "plain2", ObjN("$concat", ArrN(StrN("$plain1").With(&Tag{Role: Ref}), l()))))}
	})},
	{"lookup-pipeline-match", "aggregate", selAgg(func(g *Gen, N string, l func() *Node) []*Node {
		return []*Node{ObjN("$lookup", ObjN("from", g.nsColl(), "pipeline", ArrN(ObjN("$match", ObjN(N, ObjN("$in", ArrN(l())), "plain1", l()))), "as", FreeS("j")))}
	})},
	{"facet-match", "aggregate", selAgg(func(g *Gen, N string, l func() *Node) []*Node {
		return []*Node{ObjN("$facet", ObjN("fa", ArrN(ObjN("$match", ObjN(N, l(), "plain1", ObjN("$in", ArrN(l())))))))}
	})},
}

// SelClasses are the literal classes used by the selective catalogue.
var SelClasses = []string{"str", "email", "date", "oid", "b64", "num", "bool"}

func SelBuilderNames() []string {
	var n []string
	for _, b := range selBuilders {
		n = append(n, b.Name)
	}
	return n
}

// SelCatalogue: every wrapper × class × each given field name, reps times
// (each repetition draws fresh literal values: the verdict must not depend on
// the value).
func (g *Gen) SelCatalogue(names []string, reps int) []*Case {
	var out []*Case
	i := 0
	for r := 0; r < reps; r++ {
		for _, b := range selBuilders {
			for _, N := range names {
				for _, cl := range SelClasses {
					cl, slot := cl, "sel-"+b.Name
					lit := func() *Node { return g.LitClass(cl, slot) }
					db, coll := "db"+g.letters(5), "coll"+g.letters(5)
					cmd := b.Mk(g, N, lit, coll, db)
					out = append(out, g.Case(CaseOpts{Verb: b.Verb, Carrier: Carriers[i%len(Carriers)], Comp: Comps[(i/3)%3], DB: db, Coll: coll, Cmd: cmd}))
					i++
				}
			}
		}
	}
	return out
}
