package gen

import (
	"fmt"
	"strings"

	. "verif/jt"
)

// Field-name redaction corpus (C15): planted identifiers used ONLY at the
// positions the statement lists — keys of the query predicate, update
// specification, inserted documents, sort document, $match / $sort stages,
// '$field' references in expressions, index keys of the plan summary.

type FnCase struct {
	*Case
	Names   []string // planted name components used in this line
	Summary string   // plan summary text ("" = none)
	SumKeys [][]string
}

// FnPool returns a pool of planted names: unique long identifiers plus the
// tricky families (substrings of each other, of IXSCAN, hex-looking, 1-letter).
func (g *Gen) FnPool() []string {
	t := g.letters(7)
	long := []string{"fz" + t + "a", "fz" + t + "ab", "Fz" + g.letters(12), "fz_" + g.letters(5) + "_id", "fz" + g.letters(16) + "xy"}
	switch g.R.Intn(5) {
	case 0:
		return append(long, "a", "ab", "abc", "b")
	case 1:
		return append(long, "X", "IX", "SCAN", "IXSCAN", "N")
	case 2:
		// hex-looking names, also of exactly the lengths digests / ObjectIds / UUIDs have
		return append(long, "dead", "beef", "0123abcd", "e", "f00", "deadbeefcafe0123", "id_0123456789abcdef", "507f1f77bcf86cd799439011", "a3f5c2d1e4b6978800112233445566ff")
	case 3:
		return append(long, "REDACTED", "id", "_", "x1")
	}
	return long
}

func (g *Gen) fnPick(pool []string, k int) []string {
	p := append([]string{}, pool...)
	g.R.Shuffle(len(p), func(i, j int) { p[i], p[j] = p[j], p[i] })
	if k > len(p) {
		k = len(p)
	}
	return p[:k]
}

// FnScanStages are the plan stages that print the key pattern of the index they use.
var FnScanStages = []string{"IXSCAN", "IXSCAN", "IXSCAN", "COUNT_SCAN", "DISTINCT_SCAN", "EXPRESS_IXSCAN"}

// fnDirs: what an index key's "direction" may be: 1 / -1, or the kind of a special index
var fnDirs = []string{`"hashed"`, `"2dsphere"`, `"text"`, `"2d"`, `1`, `-1`}

func fnSummary(clauses [][]string, dirs []int, stage func() string) string {
	var cs []string
	d := 0
	for _, keys := range clauses {
		var ks []string
		for _, k := range keys {
			if dirs == nil {
				ks = append(ks, fmt.Sprintf("%s: %s", k, fnDirs[(d+len(k))%len(fnDirs)]))
			} else {
				ks = append(ks, fmt.Sprintf("%s: %d", k, dirs[d%len(dirs)]))
			}
			d++
		}
		cs = append(cs, stage()+" { "+strings.Join(ks, ", ")+" }")
	}
	return strings.Join(cs, ", ")
}

// FnLine builds one line of the given verb for namespace db.coll using names
// from pool. nsForm: "full" attr.ns=db.coll, "none" no attr.ns.
func (g *Gen) FnLine(pool []string, verb, db, coll string, carrier string) *FnCase {
	n := g.fnPick(pool, g.rng(3, 5))
	for len(n) < 5 {
		n = append(n, n[0])
	}
	l := func(slot string) *Node {
		return g.LitClass(g.pick("str", "str", "num", "email", "date", "oid", "bool"), "fn-"+slot)
	}
	ref := func(name string) *Node { return StrN("$" + name).With(&Tag{Role: Ref}) }
	{
		// a field may hold null, {} or [] instead of a literal (deletedAt: null is everyday): the
		// NAME is renamed all the same
		lit := l
		l = func(slot string) *Node {
			switch g.R.Intn(14) {
			case 0, 1:
				return NullN()
			case 2:
				return ObjN()
			case 3:
				return ArrN()
			}
			return lit(slot)
		}
	}
	var cmd *Node
	var clauses [][]string
	switch verb {
	case "find":
		f := ObjN(n[0], l("filter"), n[1], ObjN("$gt", l("filter")))
		if g.chance(0.6) {
			f.Set("$or", ArrN(ObjN(n[2], l("filter")), ObjN(n[0]+"."+n[3], ObjN("$in", ArrN(l("filter"))))))
		}
		if g.chance(0.35) {
			// $expr comparing fields: "$f" and its other spellings "$$ROOT.f" / "$$CURRENT.f"
			f.Set("$expr", ObjN(g.pick("$eq", "$gt", "$ne"), ArrN(StrN(g.pick("$$ROOT.", "$$CURRENT.", "$")+n[0]).With(&Tag{Role: Ref}), StrN(g.pick("$$ROOT.", "$")+n[1]).With(&Tag{Role: Ref}))))
		}
		cmd = ObjN("find", collN(coll), "filter", f, "sort", ObjN(n[0], FreeI(1), n[1], FreeI(-1)), "limit", KeepI(10))
		if g.chance(0.5) {
			// members that are not query-bearing (fixed, non-planted names): whatever the switches, they come out as
			// in the run without --redactFieldNames
			cmd.Set("projection", keep(ObjN("fixedsku", IntN(1), "fixedgift", BoolN(true), "_id", IntN(0))))
			cmd.Set("hint", keep(ObjN("fixedsku", IntN(1), "fixedts", IntN(-1))))
			cmd.Set("skip", KeepI(20))
		}
		clauses = [][]string{{n[0], n[1]}}
		if g.chance(0.4) {
			clauses = [][]string{{n[0]}, {n[2]}, {n[0] + "." + n[3], n[1]}}
		}
	case "update":
		u := ObjN("$set", ObjN(n[1], l("update"), n[2]+"."+n[3], l("update")), "$inc", ObjN(n[0], sens(NumN(g.Number()), "num", "fn-update")))
		if g.chance(0.3) {
			u = ObjN(n[1], l("replacement"), n[2], ObjN(n[3], l("replacement")))
		} else if g.chance(0.4) {
			// strings that NAME fields (the new name of a $rename): no claim for matching lines, but a line of
			// another namespace is emitted exactly as without the flag
			u.Set("$rename", ObjN("fixedold", FreeS("fixednew"), "fixedmail", FreeS("contact.fixedmail")))
		}
		cmd = ObjN("update", collN(coll), "updates", ArrN(ObjN("q", ObjN(n[0], l("q"), n[4], ObjN("$ne", l("q"))), "u", u, "multi", FreeB(false))), "ordered", keep(BoolN(true)))
		clauses = [][]string{{n[0], n[4]}}
	case "insert":
		cmd = ObjN("insert", collN(coll), "documents", ArrN(ObjN(n[0], l("insert"), n[1], ObjN(n[2], l("insert")), n[3], ArrN(ObjN(n[0], l("insert")), l("insert")))), "ordered", keep(BoolN(true)))
	case "aggregate":
		p := ArrN(ObjN("$match", ObjN(n[0], l("match"), n[1], ObjN("$in", ArrN(l("match"))))), ObjN("$sort", ObjN(n[1], FreeI(1), n[0], FreeI(-1))))
		if g.chance(0.7) {
			p.Vals = append(p.Vals, ObjN("$addFields", ObjN("outx", ObjN("$concat", ArrN(ref(n[0]), l("expr"))), "outy", ObjN("$ifNull", ArrN(ref(n[2]+"."+n[3]), l("expr"))))))
		}
		if g.chance(0.5) {
			p.Vals = append(p.Vals, ObjN("$group", ObjN("_id", ref(n[2]), "total", ObjN("$sum", ref(n[0])))))
		}
		if g.chance(0.4) {
			p.Vals = append(p.Vals, ObjN("$lookup", ObjN("from", FreeS("fixedcoll"), "localField", FreeS("fixedlocal"), "foreignField", FreeS("fixedforeign"), "as", FreeS("fixedjoined"))))
		}
		if g.chance(0.4) {
			// the same fields reached through a variable: "$$ROOT.f" / "$$CURRENT.f" are other spellings of "$f",
			// "$$this.f" is the usual way to name a member inside $map / $filter — as a direct value and inside arrays
			vref := func(v, name string) *Node { return StrN("$$" + v + "." + name).With(&Tag{Role: Ref}) }
			p.Vals = append(p.Vals, ObjN("$match", ObjN("$expr", ObjN("$lt", ArrN(vref("ROOT", n[0]), vref("CURRENT", n[1]))))))
			p.Vals = append(p.Vals, ObjN("$addFields", ObjN("outv", vref("ROOT", n[0]), "outw", ObjN("$concat", ArrN(vref("CURRENT", n[1]), l("expr"))),
				"outm", ObjN("$map", ObjN("input", ref(n[3]), "as", FreeS("it"), "in", ObjN("$toUpper", vref("it", n[2])))))),
				ObjN("$group", ObjN("_id", vref("ROOT", n[1]), "cnt", ObjN("$sum", vref("CURRENT", n[0])))))
		}
		if g.chance(0.3) {
			// typed literals below a leading search stage (the path names a fixed, non-planted field) and
			// expression operators outside the tool's core table
			lead := ObjN("$search", ObjN("index", KeepS("fnidx"), "compound", ObjN("must", ArrN(ObjN("equals", ObjN("path", FreeS("fixedpath"), "value", g.LitClass(g.pick("oid", "date", "b64"), "fn-search"))), ObjN("range", ObjN("path", FreeS("fixedpath"), "gte", g.LitClass("date", "fn-search")))))))
			p.Vals = append([]*Node{lead}, p.Vals...)
			p.Vals = append(p.Vals, ObjN("$addFields", ObjN("outz", ObjN("$toLower", ref(n[1])), "outq", ObjN("$dateToString", ObjN("date", ref(n[0]), "format", FreeS("%Y"))))))
		}
		cmd = ObjN("aggregate", collN(coll), "pipeline", p, "cursor", keep(ObjN()))
		clauses = [][]string{{n[0], n[1]}}
	case "wupdate":
		cmd = ObjN("q", ObjN(n[0], l("q")), "u", ObjN("$set", ObjN(n[1], l("update"))), "multi", keep(BoolN(false)), "upsert", keep(BoolN(false)))
		clauses = [][]string{{n[0]}}
	}
	if verb != "wupdate" {
		cmdTail(cmd, db)
	}
	cs := g.Case(CaseOpts{Verb: verb, Carrier: carrier, Comp: Comps[g.R.Intn(3)], DB: db, Coll: coll, Cmd: cmd})
	fc := &FnCase{Case: cs}
	seen := map[string]bool{}
	for _, x := range n {
		if !seen[x] {
			seen[x] = true
			fc.Names = append(fc.Names, x)
		}
	}
	attr := cs.Line.Get("attr")
	if attr.Has("planSummary") {
		switch {
		case len(clauses) == 0 || g.chance(0.2):
			fc.Summary = g.pick("COLLSCAN", "IDHACK", "EOF")
		default:
			// one scan stage per summary (a summary with several clauses repeats it, as an OR of index scans does)
			st := FnScanStages[g.R.Intn(len(FnScanStages))]
			dirs := []int{1, -1, 1}
			if g.chance(0.25) {
				dirs = nil // hashed / geo / text index keys
			}
			fc.Summary = fnSummary(clauses, dirs, func() string { return st })
			fc.SumKeys = clauses
		}
		attr.Set("planSummary", StrN(fc.Summary))
	}
	return fc
}
