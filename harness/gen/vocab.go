package gen

import (
	"fmt"
	"sort"
	"strings"

	. "verif/jt"
)

// DriverVocabulary is the driver's own list of operator / stage / option
// names (written from the MongoDB manual); checks union it with the keys
// dumped from the tool's tables so an operator added to the tool is exercised
// automatically.
var DriverVocabulary = strings.Fields(`
$eq $ne $gt $gte $lt $lte $in $nin $all $and $or $nor $not $exists $type $expr $jsonSchema $mod $regex $options $text $search $where
$geoIntersects $geoWithin $near $nearSphere $geometry $maxDistance $minDistance $centerSphere $box $polygon $elemMatch $size
$bitsAllClear $bitsAllSet $bitsAnyClear $bitsAnySet $meta $slice $rand $natural $comment $language $caseSensitive
$currentDate $inc $min $max $mul $rename $set $setOnInsert $unset $addToSet $pop $pull $push $pullAll $each $position $sort $bit
$abs $add $ceil $divide $exp $floor $ln $log $log10 $multiply $pow $round $sqrt $subtract $trunc $arrayElemAt $arrayToObject $concatArrays
$filter $firstN $indexOfArray $isArray $lastN $map $maxN $minN $objectToArray $range $reduce $reverseArray $sortArray $zip $cmp $cond $ifNull $switch
$concat $dateFromString $dateToString $toString $toLower $toUpper $substrCP $regexMatch $regexFind $split $trim $literal $let $mergeObjects $getField $setField
$sum $avg $first $last $count $stdDevPop $top $bottom $accumulator $function
$addFields $bucket $bucketAuto $changeStream $changeStreamSplitLargeEvent $collStats $currentOp $densify $documents $facet $fill $geoNear $graphLookup $group
$indexStats $limit $listLocalSessions $listSampledQueries $listSearchIndexes $listSessions $lookup $match $merge $out $planCacheStats $project $querySettings
$queryStats $redact $replaceRoot $replaceWith $sample $searchMeta $setWindowFields $shardedDataDistribution $skip $sortByCount $unionWith $unwind $vectorSearch $rankFusion
$date $oid $binary $numberLong $numberInt $numberDouble $numberDecimal $uuid $timestamp $regularExpression $minKey $maxKey $symbol $code $dbPointer $undefined
base64 subType pattern options if then else branches case default vars in input as cond initialValue from localField foreignField let pipeline coll db into on whenMatched whenNotMatched
groupBy boundaries output granularity buckets field range step unit bounds partitionBy partitionByFields sortBy window documents newRoot startWith connectFromField connectToField maxDepth depthField restrictSearchWithMatch
near distanceField distanceMultiplier includeLocs key maxDistance minDistance query spherical size path preserveNullAndEmptyArrays includeArrayIndex
index text phrase autocomplete wildcard regex equals value compound must mustNot should filter embeddedDocument operator facet facets moreLikeThis like geoWithin circle center radius geoShape geometry relation coordinates
span term queryString defaultPath exists score fuzzy slop synonyms tokenOrder allowAnalyzedField matchCriteria minimumShouldMatch origin pivot gt gte lt lte highlight count sort searchAfter searchBefore scoreDetails returnStoredSource tracking concurrent
queryVector numCandidates limit exact pipelines combination weights numBuckets type threshold resumeAfter startAfter fullDocument users allUsers
`)

func MergeVocab(extra []string) []string {
	m := map[string]bool{}
	for _, k := range DriverVocabulary {
		m[k] = true
	}
	for _, k := range extra {
		m[k] = true
	}
	out := make([]string, 0, len(m))
	for k := range m {
		out = append(out, k)
	}
	sort.Strings(out)
	return out
}

// ProbeValues are the value kinds of the explicit small product
// {vocabulary key} × {value kind} × {zone}.
func ProbeValues() []*Node {
	e := func() *Node { return &Node{K: Arr, Vals: []*Node{}} }
	return []*Node{
		NullN(), BoolN(true), IntN(0), NumN("12.5"), StrN("s"), StrN("$s"), StrN(""), ObjN(), e(), ArrN(e()), ArrN(ObjN()),
		ArrN(ArrN(ObjN("k", IntN(1)))), ObjN("$date", NullN()), ObjN("$oid", ObjN()), ObjN("$date", IntN(12345)), ObjN("$binary", ObjN("base64", IntN(3), "subType", NullN())),
		ObjN("$binary", StrN("x")), ObjN("$date", e()), ObjN("$oid", ArrN(StrN("a"))), ObjN("k", StrN("v"), "n", NullN()), ArrN(StrN("a"), NullN(), IntN(1), ObjN("k", NullN())),
		ObjN("$numberLong", IntN(5)), ObjN("base64", BoolN(false)), ArrN(StrN("$a"), StrN("lit")), ObjN("$date", ObjN("$numberLong", StrN("1"))),
	}
}

var ProbeZones = []string{"filter", "update", "documents", "$match", "$addFields", "$facet", "$search", "$lookup.pipeline", "updates.u", "$group", "$vectorSearch", "deletes.q", "u-array"}

// ProbeLine places {key: val} into the given zone of an otherwise ordinary
// COMMAND line.
func (g *Gen) ProbeLine(zone, key string, val *Node) *Node {
	inner := ObjN(key, val.Clone())
	var cmd *Node
	switch zone {
	case "filter":
		cmd = ObjN("find", StrN("c"), "filter", inner, "$db", StrN("db1"))
	case "update":
		cmd = ObjN("findAndModify", StrN("c"), "query", ObjN("a", IntN(1)), "update", inner, "$db", StrN("db1"))
	case "documents":
		cmd = ObjN("insert", StrN("c"), "documents", ArrN(inner), "$db", StrN("db1"))
	case "$match", "$addFields", "$facet", "$search", "$group", "$vectorSearch":
		cmd = ObjN("aggregate", StrN("c"), "pipeline", ArrN(ObjN(zone, inner)), "cursor", ObjN(), "$db", StrN("db1"))
	case "$lookup.pipeline":
		cmd = ObjN("aggregate", StrN("c"), "pipeline", ArrN(ObjN("$lookup", ObjN("from", StrN("o"), "pipeline", ArrN(inner, ObjN("$match", inner.Clone())), "as", StrN("j")))), "cursor", ObjN(), "$db", StrN("db1"))
	case "updates.u":
		cmd = ObjN("update", StrN("c"), "updates", ArrN(ObjN("q", inner, "u", inner.Clone())), "$db", StrN("db1"))
	case "deletes.q":
		cmd = ObjN("delete", StrN("c"), "deletes", ArrN(ObjN("q", inner, "limit", IntN(1))), "$db", StrN("db1"))
	case "u-array":
		cmd = ObjN("q", inner, "u", ArrN(ObjN("$set", inner.Clone()), inner.Clone()))
	default:
		panic("zone " + zone)
	}
	return ObjN("t", ObjN("$date", StrN("2025-05-30T09:47:39.001+00:00")), "s", StrN("I"), "c", StrN("COMMAND"), "id", IntN(51803), "ctx", StrN("conn1"), "msg", StrN("Slow query"),
		"attr", ObjN("type", StrN("command"), "ns", StrN("db1.c"), "command", cmd, "planSummary", StrN("COLLSCAN"), "remote", StrN("1.2.3.4:5"), "durationMillis", IntN(7)))
}

// VocabSoup returns an arbitrary JSON tree whose keys are drawn from the
// vocabulary mixed with user field names and whose values are every JSON kind.
func (g *Gen) VocabSoup(vocab []string, d int) *Node {
	c := g.R.Intn(16)
	if d <= 0 && c >= 9 {
		c = g.R.Intn(9)
	}
	switch c {
	case 0:
		return NullN()
	case 1:
		return BoolN(g.chance(0.5))
	case 2:
		return NumN(soupNums[g.R.Intn(len(soupNums))])
	case 3, 4:
		return StrN(soupStrs[g.R.Intn(len(soupStrs))])
	case 5:
		return StrN("$" + g.Field())
	case 6:
		return &Node{K: Arr, Vals: []*Node{}}
	case 7:
		return ObjN()
	case 8:
		pv := ProbeValues()
		return pv[g.R.Intn(len(pv))].Clone()
	case 9, 10, 11, 12:
		o := ObjN()
		for i, n := 0, g.rng(1, 4); i < n; i++ {
			var k string
			if g.chance(0.65) {
				k = vocab[g.R.Intn(len(vocab))]
			} else {
				k = g.Field()
			}
			if o.Has(k) {
				continue
			}
			o.Set(k, g.VocabSoup(vocab, d-1))
		}
		return o
	case 13, 14:
		a := &Node{K: Arr, Vals: []*Node{}}
		for i, n := 0, g.rng(1, 4); i < n; i++ {
			a.Vals = append(a.Vals, g.VocabSoup(vocab, d-1))
		}
		return a
	case 15:
		return ArrN(ArrN(g.VocabSoup(vocab, d-1)), &Node{K: Arr, Vals: []*Node{}}, ArrN(ArrN(ObjN(vocab[g.R.Intn(len(vocab))], g.VocabSoup(vocab, d-1)))))
	}
	return NullN()
}

// SoupLine puts a vocabulary-soup tree into a zone of a command line.
func (g *Gen) SoupLine(vocab []string, i int) *Node {
	zone := ProbeZones[i%len(ProbeZones)]
	key := vocab[g.R.Intn(len(vocab))]
	if g.chance(0.3) {
		key = g.Field()
	}
	l := g.ProbeLine(zone, key, g.VocabSoup(vocab, 4))
	comp := g.pick("COMMAND", "QUERY", "WRITE", "NETWORK")
	l.Set("c", StrN(comp))
	if g.chance(0.2) {
		// move the command document to another carrier
		attr := l.Get("attr")
		cmd := attr.Get("command")
		car := g.pick("originatingCommand", "cmd")
		na := ObjN()
		for j, k := range attr.Keys {
			if k == "command" {
				if car == "originatingCommand" {
					na.Set("command", ObjN("getMore", NumN("123"), "collection", StrN("c"), "$db", StrN("db1")))
				}
				na.Set(car, cmd)
			} else {
				na.Set(k, attr.Vals[j])
			}
		}
		l.Set("attr", na)
	}
	_ = fmt.Sprint
	return l
}
