package gen

import (
	"fmt"
	"sort"

	. "verif/jt"
)

// Case is one generated structured log line with its tagged tree.
type Case struct {
	Line    *Node
	Verb    string // find aggregate count distinct findAndModify update delete insert wupdate wremove getMore
	Carrier string // command originatingCommand cmd
	Comp    string
	DB      string
	Coll    string
	ID      int
	// MemberOrder: "" (command name first, as the server writes it), "sorted", "verb-last"
	MemberOrder string
}

var Verbs = []string{"find", "aggregate", "count", "distinct", "findAndModify", "update", "delete", "insert", "wupdate", "wremove"}
var Carriers = []string{"command", "originatingCommand", "cmd"}
var Comps = []string{"COMMAND", "QUERY", "WRITE", "OTHER"}

type CaseOpts struct {
	Verb       string // "" random
	Carrier    string
	Comp       string
	DB         string
	Coll       string
	NoNsStages bool
	Cmd        *Node  // if set, used as the command document instead of a generated one
	Msg        string // if set, the line's msg (an OTHER-component line with another msg is outside the line gate)
	AttrNs     string // if set, the text of attr.ns (default: DB.Coll)
}

func (g *Gen) lsid() *Node {
	return keep(ObjN("id", ObjN("$uuid", StrN(fmt.Sprintf("7938452b-c804-4245-8eed-%012d", g.R.Intn(1000000000))))))
}

func (g *Gen) clusterTime() *Node {
	return keep(ObjN("clusterTime", ObjN("$timestamp", ObjN("t", IntN(1748598458), "i", IntN(g.rng(1, 400)))),
		"signature", ObjN("hash", ObjN("$binary", ObjN("base64", StrN("YIwPO0EBX2vevOytJne/wzScXMU="), "subType", StrN("0"))), "keyId", NumN("7469113720208097282"))))
}

// Command builds a command document for the given verb.
func (g *Gen) Command(verb, db, coll string) *Node {
	d := g.MaxDepth
	c := ObjN()
	collN := func() *Node { return StrN(coll).With(&Tag{Role: NsColl}) }
	switch verb {
	case "find":
		c.Set("find", collN())
		c.Set("filter", g.Query(d))
		if g.chance(0.6) {
			c.Set("sort", g.SortDoc())
		}
		if g.chance(0.3) {
			c.Set("projection", keep(ObjN("name", IntN(1), "_id", IntN(0))))
		}
		if g.chance(0.5) {
			c.Set("limit", KeepN(g.Number()))
		}
		if g.chance(0.3) {
			c.Set("skip", KeepI(g.rng(0, 500)))
		}
		if g.chance(0.3) {
			c.Set("batchSize", KeepI(101))
			c.Set("singleBatch", keep(BoolN(true)))
		}
	case "aggregate":
		c.Set("aggregate", collN())
		c.Set("pipeline", g.Pipeline(d, true))
		c.Set("cursor", keep(ObjN()))
		if g.chance(0.3) {
			c.Set("allowDiskUse", keep(BoolN(true)))
		}
	case "count":
		c.Set("count", collN())
		c.Set("query", g.Query(d))
		if g.chance(0.3) {
			c.Set("limit", KeepI(5))
		}
	case "distinct":
		c.Set("distinct", collN())
		c.Set("key", KeepS(g.Field()))
		c.Set("query", g.Query(d))
	case "findAndModify":
		c.Set("findAndModify", collN())
		c.Set("query", g.Query(d))
		switch g.R.Intn(4) {
		case 0, 1:
			c.Set("update", g.UpdateDoc(d))
		case 2:
			c.Set("update", g.Doc("update-replacement", 1))
		case 3:
			c.Set("update", g.UpdatePipeline(d))
		}
		if g.chance(0.4) {
			c.Set("sort", g.SortDoc())
		}
		c.Set("new", keep(BoolN(true)))
		c.Set("upsert", keep(BoolN(false)))
	case "update":
		c.Set("update", collN())
		us := ArrN()
		for i, n := 0, g.rng(1, 3); i < n; i++ {
			u := ObjN("q", g.Query(d))
			switch g.R.Intn(4) {
			case 0, 1:
				u.Set("u", g.UpdateDoc(d))
			case 2:
				u.Set("u", g.Doc("update-replacement", 1))
			case 3:
				u.Set("u", g.UpdatePipeline(d))
				if g.chance(0.5) {
					u.Set("c", g.Doc("update-constants", 1))
				}
			}
			u.Set("multi", FreeB(g.chance(0.5)))
			u.Set("upsert", FreeB(false))
			us.Vals = append(us.Vals, u)
		}
		c.Set("updates", us)
		c.Set("ordered", keep(BoolN(true)))
	case "delete":
		c.Set("delete", collN())
		ds := ArrN()
		for i, n := 0, g.rng(1, 3); i < n; i++ {
			ds.Vals = append(ds.Vals, ObjN("q", g.Query(d), "limit", FreeI(g.pick2(0, 1))))
		}
		c.Set("deletes", ds)
		c.Set("ordered", keep(BoolN(true)))
	case "insert":
		c.Set("insert", collN())
		docs := ArrN()
		for i, n := 0, g.rng(1, 3); i < n; i++ {
			docs.Vals = append(docs.Vals, g.Doc("insert-doc", 2))
		}
		c.Set("documents", docs)
		c.Set("ordered", keep(BoolN(true)))
	case "wupdate":
		c.Set("q", g.Query(d))
		switch g.R.Intn(4) {
		case 0, 1:
			c.Set("u", g.UpdateDoc(d))
		case 2:
			c.Set("u", g.Doc("update-replacement", 1))
		case 3:
			c.Set("u", g.UpdatePipeline(d))
		}
		c.Set("multi", keep(BoolN(true)))
		c.Set("upsert", keep(BoolN(false)))
		return c
	case "wremove":
		c.Set("q", g.Query(d))
		c.Set("limit", KeepI(0))
		return c
	}
	c.Set("lsid", g.lsid())
	if g.chance(0.5) {
		c.Set("$clusterTime", g.clusterTime())
	}
	if g.chance(0.2) {
		c.Set("maxTimeMS", KeepI(5000))
	}
	if g.chance(0.2) {
		// the comment option takes any BSON value since server 4.4 (a request id, a flag, a document): it is
		// not one of the query-bearing fields, so it comes out as it went in
		g.serial++
		c.Set("comment", keep([]*Node{IntN(4000 + g.serial%5000), BoolN(true), BoolN(false), NullN(), StrN("request " + g.letters(6)), NumN("17.50"),
			ObjN("requestId", IntN(g.serial), "tags", ArrN(StrN("batch"), NullN())), ArrN(IntN(1), StrN("two"), ObjN("k", BoolN(true)))}[g.serial%8]))
	}
	c.Set("$db", StrN(db).With(&Tag{Role: NsDB}))
	return c
}

func (g *Gen) metrics(attr *Node) {
	attr.Set("planSummary", KeepS(g.pick("COLLSCAN", "IXSCAN { status: 1 }", "IXSCAN { a: 1, b: -1 }", "IDHACK")))
	attr.Set("keysExamined", KeepI(g.rng(0, 100000)))
	attr.Set("docsExamined", KeepN(g.Number()))
	if g.chance(0.5) {
		attr.Set("hasSortStage", keep(BoolN(true)))
		attr.Set("queryHash", KeepS("B134177D"))
	}
	attr.Set("nreturned", KeepI(g.rng(0, 1000)))
	attr.Set("reslen", KeepI(g.rng(100, 100000)))
	attr.Set("locks", keep(ObjN("Global", ObjN("acquireCount", ObjN("r", IntN(4))))))
	if g.chance(0.5) {
		attr.Set("storage", keep(ObjN("data", ObjN("bytesRead", NumN("38805493"), "timeReadingMicros", IntN(21587)))))
	} else {
		attr.Set("storage", keep(ObjN()))
	}
	attr.Set("cpuNanos", KeepN("24778600"))
	attr.Set("remote", StrN(g.RemoteAddr()).With(&Tag{Role: Remote}))
	attr.Set("protocol", KeepS("op_msg"))
	attr.Set("durationMillis", KeepI(g.rng(100, 9999)))
}

// RemoteAddr returns a client address as the server logs it in attr.remote:
// mostly IPv4, but also bracketed IPv6 (plain, link-local with zone,
// IPv4-mapped) and host names.
func (g *Gen) RemoteAddr() string {
	port := g.rng(1024, 65000)
	switch g.R.Intn(10) {
	case 0:
		return fmt.Sprintf("[2001:db8:%x:%x::%x]:%d", g.rng(1, 65535), g.rng(1, 65535), g.rng(1, 65535), port)
	case 1:
		return fmt.Sprintf("[fe80::%x:%x%%eth0]:%d", g.rng(1, 65535), g.rng(1, 65535), port)
	case 2:
		return fmt.Sprintf("[::ffff:198.51.%d.%d]:%d", g.rng(0, 255), g.rng(1, 254), port)
	case 3:
		return fmt.Sprintf("client-%s.corp.example.net:%d", g.letters(6), port)
	}
	return fmt.Sprintf("%d.%d.%d.%d:%d", g.rng(1, 254), g.rng(0, 255), g.rng(0, 255), g.rng(1, 254), port)
}

// Case builds one complete log line.
func (g *Gen) Case(o CaseOpts) *Case {
	cs := &Case{Verb: o.Verb, Carrier: o.Carrier, Comp: o.Comp, DB: o.DB, Coll: o.Coll}
	if cs.Verb == "" {
		cs.Verb = Verbs[g.R.Intn(len(Verbs))]
	}
	if cs.Carrier == "" {
		cs.Carrier = "command"
		switch g.R.Intn(8) {
		case 0:
			cs.Carrier = "originatingCommand"
		case 1:
			cs.Carrier = "cmd"
		}
	}
	if cs.Comp == "" {
		cs.Comp = Comps[g.R.Intn(len(Comps))]
	}
	if cs.DB == "" {
		cs.DB = "db" + g.letters(5)
	}
	if cs.Coll == "" {
		cs.Coll = "coll" + g.letters(5)
	}
	wstyle := cs.Verb == "wupdate" || cs.Verb == "wremove"
	if wstyle {
		cs.Carrier = "command"
	}
	cmd := o.Cmd
	if cmd == nil {
		cmd = g.Command(cs.Verb, cs.DB, cs.Coll)
	}
	g.serial++
	cs.ID = g.serial
	if !wstyle && cmd.K == Obj && len(cmd.Keys) > 1 {
		// member order of the command document: the server writes the command name first, but a log
		// that went through a key-sorting re-serialisation (jq -S, a log shipper) does not. Every
		// seventh case has its members sorted, every seventh has the command name moved to the end.
		switch cs.ID % 7 {
		case 3:
			reorderMembers(cmd, true)
			cs.MemberOrder = "sorted"
		case 5:
			reorderMembers(cmd, false)
			cs.MemberOrder = "verb-last"
		}
	}

	comp, msg := cs.Comp, "Slow query"
	if comp == "OTHER" {
		comp = g.pick("NETWORK", "STORAGE", "REPL", "-")
	} else if g.chance(0.2) && cs.Carrier != "cmd" {
		msg = g.pick("command", "Slow query", "Plan executor error during find command")
	}
	if o.Msg != "" {
		msg = o.Msg
	}
	line := ObjN("t", keep(ObjN("$date", StrN(g.ISODate()))), "s", KeepS("I"), "c", KeepS(comp), "id", KeepI(51803), "ctx", KeepS(fmt.Sprintf("conn%d", g.rng(1, 99999))), "msg", KeepS(msg))
	attr := ObjN()
	nsFull := StrN(cs.DB + "." + cs.Coll).With(&Tag{Role: NsFull})
	if o.AttrNs != "" {
		nsFull = StrN(o.AttrNs).With(&Tag{Role: NsFull})
	}
	switch cs.Carrier {
	case "command":
		typ := "command"
		if cs.Verb == "wupdate" {
			typ = "update"
		} else if cs.Verb == "wremove" {
			typ = "remove"
		}
		attr.Set("type", KeepS(typ))
		attr.Set("ns", nsFull)
		attr.Set("appName", KeepS("app-"+g.letters(3)))
		attr.Set("command", cmd)
		g.metrics(attr)
	case "originatingCommand":
		attr.Set("type", KeepS("command"))
		attr.Set("ns", nsFull)
		gm := ObjN("getMore", KeepN("8450170943150897632"), "collection", StrN(cs.Coll).With(&Tag{Role: NsColl}), "batchSize", KeepI(899), "lsid", g.lsid(), "$db", StrN(cs.DB).With(&Tag{Role: NsDB}))
		attr.Set("command", gm)
		attr.Set("originatingCommand", cmd)
		g.metrics(attr)
		// what the server adds to every batch of a cursor
		attr.Set("cursorid", KeepN("8450170943150897632"))
		if g.chance(0.15) {
			attr.Set("cursorExhausted", keep(BoolN(true)))
		}
	case "cmd":
		line.Set("s", KeepS("W"))
		if o.Msg == "" {
			line.Set("msg", KeepS(g.pick("Aggregate command executor error", "Plan executor error during find command", "Slow query")))
		}
		attr.Set("error", keep(ObjN("code", IntN(50), "codeName", StrN("MaxTimeMSExpired"), "errmsg", StrN("operation exceeded time limit"))))
		attr.Set("stats", keep(ObjN()))
		if g.chance(0.5) {
			attr.Set("ns", nsFull) // error reports often carry the namespace next to the command copy
		}
		attr.Set("cmd", cmd)
	}
	line.Set("attr", attr)
	cs.Line = line
	return cs
}

// OtherLine builds a line of a component the tool must leave alone (no
// command document), with attribute soup to exercise the serializer.
func (g *Gen) OtherLine() *Node {
	comp := g.pick("NETWORK", "ASIO", "INDEX", "REPL", "STORAGE", "CONTROL", "ACCESS", "-", "SHARDING", "ELECTION")
	line := ObjN("t", ObjN("$date", StrN(g.ISODate())), "s", StrN(g.pick("I", "W", "E", "D1")), "c", StrN(comp), "id", IntN(g.rng(1, 9999999)), "ctx", StrN(g.pick("listener", "conn12", "ReplNetwork", "initandlisten")), "msg", StrN(g.pick("Connection accepted", "Slow connection establishment", "Index build: done", "Heartbeat", "Successfully authenticated")))
	attr := ObjN()
	if g.chance(0.5) {
		attr.Set("remote", StrN(fmt.Sprintf("10.0.%d.%d:%d", g.rng(0, 255), g.rng(1, 254), g.rng(1024, 65000))).With(&Tag{Role: Remote}))
	}
	if g.chance(0.3) {
		attr.Set("ns", StrN("db"+g.letters(3)+".c"+g.letters(3)).With(&Tag{Role: NsFull}))
	}
	for i, n := 0, g.rng(1, 5); i < n; i++ {
		attr.Set(g.pick("connectionId", "hostAndPort", "uuid", "totalTimeMillis", "hookTime", "client", "doc", "stats", "user", "mechanism", "namespace", "buildUUID")+fmt.Sprint(i), g.Soup(3))
	}
	if g.chance(0.3) {
		// attributes that merely SHARE A NAME with a namespace-bearing command member (index builds, sharding and
		// replication messages have attr.collection, attr.count, attr.update ...): ordinary attributes
		for i, n := 0, g.rng(1, 3); i < n; i++ {
			attr.Set(g.pick("collection", "count", "update", "insert", "find", "delete", "aggregate", "$db", "replace", "findAndModify", "getIndexes"), StrN(g.pick("orders", "12", "shop", "config.system.sessions", "")))
		}
	}
	line.Set("attr", attr)
	if g.chance(0.1) {
		line.Set("tags", ArrN(StrN("startupWarnings")))
	}
	if g.chance(0.05) {
		line.Set("truncated", ObjN("command", ObjN("truncated", IntN(1))))
		line.Set("size", ObjN("command", IntN(20000)))
	}
	return line
}

var soupNums = []string{"-0.0", "-0e0", "-0.000", "-1e-400", "1e-400", "0e0", "-0E+5", "0", "-0", "0.0", "1E+5", "1.50e3", "1e400", "9007199254740993", "18446744073709551616", "123456789012345678901234567890", "3.141592653589793238462643383279", "-1", "1.0", "100", "2e-7", "7469113720208097282", "0.1", "1e0", "12345678901234567890.123"}
var soupStrs = []string{"", "plain", "with space", "quote\"inside", "back\\slash", "tab\there", "nl\nhere", "<tag>&amp;", " sep ", "é漢字", "😀 astral 𝔘", "$dollar", "a.b.c", "{\"json\":1}", "null", "true", "123", "/slash/", "\u0001ctl\u001f", "\u007fdel", "mail@example.com", "ünï@cödé.com", "2020-01-01T00:00:00Z"}

// SpecialRunes: every C0 control character, DEL, C1 controls, format and
// non-characters, line/paragraph separators, BOM, tag characters, the last
// code point, JSON and HTML metacharacters.
var SpecialRunes = func() []rune {
	var r []rune
	for c := rune(0); c < 0x20; c++ {
		r = append(r, c)
	}
	return append(r, 0x7f, 0x80, 0x85, 0x9f, 0xa0, 0xad, 0x200b, 0x200e, 0x2028, 0x2029, 0xfeff, 0xfffd, 0xfffe, 0xffff, 0xe0001, 0xe007f, 0x1f600, 0x10ffff, 0xf0000, '"', '\\', '/', '<', '>', '&', '\'', '%', '$', '.')
}()

// SpecialString mixes 1–3 special runes with letters.
func (g *Gen) SpecialString() string {
	var sb []rune
	for i, n := 0, g.rng(1, 3); i < n; i++ {
		sb = append(sb, []rune(g.letters(g.rng(0, 2)))...)
		sb = append(sb, SpecialRunes[g.R.Intn(len(SpecialRunes))])
	}
	return string(append(sb, []rune(g.letters(1))...))
}

// CharsetLines: one other-component line and one command line per special
// rune, the rune inside a key and inside a string, outside and inside a zone.
func (g *Gen) CharsetLines() []*Node {
	var out []*Node
	for _, r := range SpecialRunes {
		x := string(r)
		out = append(out, ObjN("t", ObjN("$date", StrN(g.ISODate())), "s", StrN("I"), "c", StrN("NETWORK"), "id", IntN(22943), "ctx", StrN("listener"), "msg", StrN("m"+x+"m"),
			"attr", ObjN("k"+x+"k", StrN("v"+x+"v"), x, ArrN(StrN(x), ObjN(x+"z", StrN(x+x)))), x+"top", StrN(x)).With(&Tag{Role: Keep}))
		line := ObjN("t", keep(ObjN("$date", StrN(g.ISODate()))), "s", KeepS("I"), "c", KeepS("COMMAND"), "id", KeepI(51803), "ctx", KeepS("conn"+x), "msg", KeepS("Slow query"),
			"attr", ObjN("type", KeepS("command"), "ns", StrN("db1.c").With(&Tag{Role: NsFull}), "app"+x+"Name", KeepS("a"+x+"b"),
				"command", ObjN("find", StrN("c").With(&Tag{Role: NsColl}), "filter", ObjN("f"+x+"g", sens(StrN(g.Token()), "str", "charset-filter"), "h", ObjN("$in", ArrN(sens(StrN(g.Token()), "str", "charset-in")))), "comm"+x+"ent", KeepS(x), "$db", StrN("db1").With(&Tag{Role: NsDB})),
				"x"+x, keep(ObjN(x, IntN(1)))))
		out = append(out, line)
	}
	// strings whose CONTENT looks like syntax (server messages quote shell-syntax documents, index
	// bounds, numbers in other notations): inside a JSON string all of it is just text
	for _, x := range SyntaxLookalikes {
		out = append(out, ObjN("t", ObjN("$date", StrN(g.ISODate())), "s", StrN("E"), "c", StrN("STORAGE"), "id", IntN(20475), "ctx", StrN("conn7"), "msg", StrN("Write failed: "+x),
			"attr", ObjN("errMsg", StrN(x), "bounds", ArrN(StrN(x), StrN("["+x+"]")), "k: "+x, StrN("v"))).With(&Tag{Role: Keep}))
		line := ObjN("t", keep(ObjN("$date", StrN(g.ISODate()))), "s", KeepS("I"), "c", KeepS("COMMAND"), "id", KeepI(51803), "ctx", KeepS("conn8"), "msg", KeepS("Slow query"),
			"attr", ObjN("type", KeepS("command"), "ns", StrN("db1.c").With(&Tag{Role: NsFull}), "appName", KeepS(x),
				"command", ObjN("find", StrN("c").With(&Tag{Role: NsColl}), "filter", ObjN("f", sens(StrN(g.Token()), "str", "lookalike-filter")), "comment", KeepS(x), "$db", StrN("db1").With(&Tag{Role: NsDB})),
				"errMsg", KeepS("E11000 duplicate key error collection: db1.c index: score_1 dup key: "+x), "planningBounds", keep(ObjN("score", ArrN(StrN(x))))))
		out = append(out, line)
	}
	return out
}

// SyntaxLookalikes are string CONTENTS that resemble JSON / shell syntax.
var SyntaxLookalikes = []string{
	`{ score: NaN }`, `[-Infinity, Infinity]`, `{ a: Infinity, b: -Infinity }`, `"x": NaN,`, `: NaN}`, `[NaN]`, `{ : null }`, `{ _id: null }`, `: true, : false`,
	`{"a": NaN, "b": -Infinity}`, `{"$date":"2020-01-01T00:00:00Z"}`, `{"$oid":"5f1e5e2d2c3b4a0001a2b3c4"}`, `\u0000 \n \"`, `"quoted "inner" text"`, `// comment /* x */ # y`,
	`1e400 0x1F 01 +1 .5 1. -0`, `ObjectId('5f1e5e2d2c3b4a0001a2b3c4')`, `ISODate("2020-01-01T00:00:00Z")`, `NumberLong(42)`, `undefined`, `{}`, `[]`, `}{`, `,`, `:`, `null`, `true`, `0`,
	`REDACTED`, `redacted@redacted.com`, `000000000000000000000000`, `1970-01-01T00:00:00.000Z`, `255.255.255.255:65535`, `$field`, `$$ROOT`,
}

// Soup returns an arbitrary JSON tree (no planted secrets) to test that the
// tool passes through everything outside the zones unaltered.
func (g *Gen) Soup(d int) *Node {
	c := g.R.Intn(14)
	if d <= 0 && c >= 10 {
		c = g.R.Intn(10)
	}
	switch c {
	case 0:
		return NullN()
	case 1:
		return BoolN(g.chance(0.5))
	case 2, 3:
		return NumN(soupNums[g.R.Intn(len(soupNums))])
	case 4:
		return NumN(g.Number())
	case 5, 6, 7:
		if g.R.Intn(6) == 0 {
			return StrN(g.SpecialString())
		}
		return StrN(soupStrs[g.R.Intn(len(soupStrs))])
	case 8:
		return &Node{K: Arr, Vals: []*Node{}}
	case 9:
		return ObjN()
	case 10, 11:
		o := ObjN()
		for i, n := 0, g.rng(1, 4); i < n; i++ {
			k := g.pick("k", "id", "$uuid", "$date", "$oid", "$binary", "base64", "x.y", "", "ns", "remote", "command", "filter", "$in", "é") + fmt.Sprint(g.R.Intn(3))
			if g.R.Intn(8) == 0 {
				k = g.SpecialString()
			}
			o.Set(k, g.Soup(d-1))
		}
		return o
	case 12:
		a := &Node{K: Arr, Vals: []*Node{}}
		for i, n := 0, g.rng(1, 4); i < n; i++ {
			a.Vals = append(a.Vals, g.Soup(d-1))
		}
		return a
	case 13:
		// arrays of arrays of documents / empty containers
		return ArrN(ArrN(ObjN("a", g.Soup(0))), &Node{K: Arr, Vals: []*Node{}}, ArrN(ArrN(g.Soup(d-1))), ObjN())
	}
	return NullN()
}

// DeepTree returns an untagged object nested `depth` levels deep whose objects
// hold several members in non-sorted key order with non-canonical number
// literals (for the "nothing outside the zones is altered" monitor: a parser
// that falls back to another representation beyond some depth shows here).
func (g *Gen) DeepTree(depth int) *Node {
	inner := ObjN("zeta", NumN("1.50"), "alpha", StrN(g.Token()), "mid", ArrN(NumN("1E+5"), ObjN("y", IntN(1), "b", NumN("9007199254740993"))), "Beta", NullN())
	for i := depth; i > 0; i-- {
		switch {
		case i%10 == 0:
			inner = ObjN(fmt.Sprintf("z%d", i), NumN("-0.0"), "d", inner, fmt.Sprintf("a%d", i), StrN("v"))
		case i%7 == 0:
			inner = ObjN("d", ArrN(inner, IntN(i)))
		default:
			inner = ObjN("d", inner)
		}
	}
	return inner
}

// reorderMembers permutes the members of an object node in place (tags stay with their
// nodes): sorted by key, or the first member moved to the end.
func reorderMembers(n *Node, sorted bool) {
	idx := make([]int, len(n.Keys))
	for i := range idx {
		idx[i] = i
	}
	if sorted {
		sort.SliceStable(idx, func(a, b int) bool { return n.Keys[idx[a]] < n.Keys[idx[b]] })
	} else {
		idx = append(idx[1:], idx[0])
	}
	keys, vals := make([]string, len(idx)), make([]*Node, len(idx))
	for i, j := range idx {
		keys[i], vals[i] = n.Keys[j], n.Vals[j]
	}
	n.Keys, n.Vals = keys, vals
}
