package gen

import (
	"strings"

	. "verif/jt"
)

// ReassignMode selects how sensitive leaves are re-drawn within their class.
type ReassignMode int

const (
	Fresh      ReassignMode = iota // fresh unique values, random dressing
	AllEqual                       // every string of a class gets the same value
	Long                           // one leaf becomes very long, the rest short
	Meta                           // JSON-metacharacter-heavy values
	Tiny                           // 1-character values
	CrossEqual                     // one value shared by string leaves of ALL positional classes (str, $date, $oid, $binary.base64)
)

type ReassignOpts struct {
	Mode    ReassignMode
	Numbers bool // numbers may change (only when --redactNumbers is on)
	Bools   bool // booleans may change (only when --redactBooleans is on)
	Remote  bool // attr.remote may change (only when --redactIPs is on)
	LongLen int
}

// Reassign returns a copy of tree in which every SENS leaf has been re-drawn
// inside its lexical class; everything else is identical.
func (g *Gen) Reassign(tree *Node, o ReassignOpts) *Node {
	t := tree.Clone()
	eq := map[string]string{}
	longDone := false
	cross := ""
	crossEmail := false
	if o.Mode == CrossEqual {
		// the shared value looks like an ObjectId half of the time: an ordinary
		// string field holding a hex id is everyday data
		switch g.R.Intn(3) {
		case 0:
			cross = g.OID()
		case 1:
			cross = g.Dress("ascii")
		default:
			// e-mail-shaped: a member of the classes "value under $date / $oid / $binary.base64" (those
			// are positional) and of the e-mail class, but not of the ordinary-string class
			cross = g.Email()
			crossEmail = true
		}
	}
	odd := func(n *Node) bool {
		// Meta mode: the value under a typed wrapper is any string at all
		if o.Mode == Meta && g.chance(0.5) {
			n.S = g.pick(g.Email(), g.Dress("escape"), g.Dress("unicode"), g.Token(), "")
			return true
		}
		return false
	}
	t.Walk(nil, func(_ []string, n *Node) {
		if n.T == nil {
			return
		}
		if n.T.Role == Remote && o.Remote && n.K == Str {
			n.S = "10." + g.letters(0) + itoa(g.rng(0, 255)) + "." + itoa(g.rng(0, 255)) + "." + itoa(g.rng(1, 254)) + ":" + itoa(g.rng(1, 65535))
			return
		}
		if n.T.Role != Sens {
			return
		}
		switch n.T.Class {
		case "str":
			if n.K != Str {
				return
			}
			prefix, suffix := "", ""
			// keep structural decorations that the generator added around the token
			if strings.HasPrefix(n.S, "^") {
				prefix = "^"
			}
			_ = suffix
			switch o.Mode {
			case CrossEqual:
				if crossEmail {
					n.S = prefix + g.nonEmailString()
				} else {
					n.S = cross
				}
			case AllEqual:
				if v, ok := eq["str"]; ok {
					n.S = v
				} else {
					n.S = g.Dress("ascii")
					eq["str"] = n.S
				}
			case Long:
				if !longDone {
					l := o.LongLen
					if l == 0 {
						l = 10000
					}
					n.S = g.Token() + strings.Repeat("L", l)
					longDone = true
				} else {
					n.S = g.Dress("ascii")
				}
			case Meta:
				n.S = g.Dress(g.pick("escape", "html", "jsonish", "astral", "unicode", "dollar"))
			case Tiny:
				n.S = g.letters(1)
			default:
				n.S = prefix + g.nonEmailString()
			}
		case "email":
			if o.Mode == AllEqual {
				if v, ok := eq["email"]; ok {
					n.S = v
					return
				}
				n.S = g.Email()
				eq["email"] = n.S
				return
			}
			n.S = g.Email()
			if crossEmail {
				n.S = cross
			}
		case "date":
			n.S = g.ISODate()
			if cross != "" {
				n.S = cross
			} else {
				odd(n)
			}
		case "oid":
			n.S = g.OID()
			if cross != "" {
				n.S = cross
			} else {
				odd(n)
			}
		case "b64":
			n.S = g.B64()
			if cross != "" {
				n.S = cross
			} else {
				odd(n)
			}
		case "num":
			if o.Numbers && n.K == Num {
				if o.Mode == AllEqual {
					n.S = "42"
				} else {
					n.S = g.Number()
				}
			}
		case "bool":
			if o.Bools && n.K == Bool {
				n.B = g.chance(0.5)
			}
		}
	})
	return t
}

func (g *Gen) nonEmailString() string {
	for {
		s := g.SensString()
		if !strings.Contains(s, "@") {
			return s
		}
	}
}

func itoa(i int) string {
	if i == 0 {
		return "0"
	}
	neg := i < 0
	if neg {
		i = -i
	}
	var b []byte
	for i > 0 {
		b = append([]byte{byte('0' + i%10)}, b...)
		i /= 10
	}
	if neg {
		b = append([]byte{'-'}, b...)
	}
	return string(b)
}
