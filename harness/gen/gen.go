// Package gen is the tagged grammar generator of DESIGN §3.1: structured
// MongoDB log lines whose every leaf carries a tag assigned from the MongoDB
// grammar (Appendix A), never from the tool's operator tables.
package gen

import (
	"encoding/base64"
	"fmt"
	"math/rand"
	"strings"

	. "verif/jt"
)

type Gen struct {
	R        *rand.Rand
	serial   int
	MaxDepth int
	// knobs
	NoEmail         bool // never produce e-mail class
	NoEmpty         bool // never produce the empty string
	PlainOnly       bool // only ASCII tokens (for plan summaries etc.)
	LongMax         int  // max length of "long" strings (0 = 600)
	Fields          []string
	NoKeywordFields bool // never use keyword-like user field names
	fieldsUsed      map[string]bool
}

func New(seed int64) *Gen {
	return &Gen{R: rand.New(rand.NewSource(seed)), MaxDepth: 4,
		Fields: []string{"status", "name", "age", "createdAt", "owner.id", "tags", "items", "qty", "a", "b", "address.city", "ssn", "email", "score", "meta", "_id", "x1", "y", "user_ref", "Zeta"}}
}

func (g *Gen) pick(ss ...string) string { return ss[g.R.Intn(len(ss))] }
func (g *Gen) chance(p float64) bool    { return g.R.Float64() < p }
func (g *Gen) rng(lo, hi int) int       { return lo + g.R.Intn(hi-lo+1) }

// KeywordFields are user field names that coincide with option / operator
// keywords of the query, aggregation and search grammars (a collection may
// well have fields called "text", "index", "limit", "path", "numBuckets" …).
var KeywordFields = func() []string {
	var k []string
	for _, w := range DriverVocabulary {
		if !strings.HasPrefix(w, "$") {
			k = append(k, w)
		}
	}
	// names of command verbs and namespace-bearing command keys: a document may well have a
	// field called "collection", "ns", "count" or "update"
	k = append(k, "ns", "collection", "find", "update", "delete", "insert", "aggregate", "replace", "findAndModify", "getIndexes", "countDocuments", "distinct", "getMore", "explain", "command", "cmd", "attr", "remote", "planSummary", "filter", "documents", "updates", "deletes", "q", "u", "sort")
	return k
}()

func (g *Gen) Field() string {
	if !g.NoKeywordFields && g.R.Intn(16) == 0 {
		return KeywordFields[g.R.Intn(len(KeywordFields))]
	}
	return g.Fields[g.R.Intn(len(g.Fields))]
}

func (g *Gen) digits(n int) string {
	b := make([]byte, n)
	for i := range b {
		b[i] = byte('0' + g.R.Intn(10))
	}
	return string(b)
}

func (g *Gen) letters(n int) string {
	b := make([]byte, n)
	for i := range b {
		b[i] = byte('a' + g.R.Intn(26))
	}
	return string(b)
}

// Token is a unique ASCII string (10–14 characters) that cannot occur in the
// non-sensitive part of a line, in a hash or in a base64 ciphertext by chance.
func (g *Gen) Token() string {
	g.serial++
	return fmt.Sprintf("zq%dx%s", g.serial, g.letters(g.rng(5, 7)))
}

var dressings = []string{"ascii", "ascii", "ascii", "space", "unicode", "astral", "dollar", "digits", "escape", "html", "long", "empty", "jsonish", "b64ish", "upper", "pad", "pademail", "bslash", "addr", "lookalike", "percent", "nfd"}

// SensString returns the contents of a sensitive ordinary string.
func (g *Gen) SensString() string {
	for {
		d := dressings[g.R.Intn(len(dressings))]
		if g.PlainOnly {
			d = "ascii"
		}
		if d == "empty" && g.NoEmpty {
			continue
		}
		return g.Dress(d)
	}
}

func (g *Gen) Dress(d string) string {
	t := g.Token()
	switch d {
	case "space":
		return t + " " + g.letters(3)
	case "unicode":
		return t + "é漢字ß" + g.letters(2)
	case "astral":
		return "😀" + t + "𝔘𐍈"
	case "dollar":
		return t + "$" + g.letters(3) + "$"
	case "digits":
		g.serial++
		return fmt.Sprintf("9%05d%07d", g.serial%100000, g.R.Intn(10000000))
	case "escape":
		return t + "\"q\\b/\n\t\r\u0001\u001f" + g.letters(2)
	case "html":
		return "<" + t + ">&  '"
	case "long":
		m := g.LongMax
		if m == 0 {
			m = 600
		}
		if m < 120 {
			m = 120
		}
		return t + strings.Repeat(g.letters(1), g.rng(100, m))
	case "empty":
		return ""
	case "jsonish":
		return `{"` + t + `":[1,"x"]}`
	case "nfd":
		// text that is not in Unicode normalisation form C: a letter followed by a combining mark, marks in
		// non-canonical order, Hangul jamo, Angstrom / Ohm signs, CJK compatibility ideographs - the bytes are the value
		return t + g.pick("e\u0301", "a\u0323\u0302 o\u0302\u0323", "\u1100\u1161\u11a8", "\u212b \u2126", "\ufa30\uf900", "n\u0303o", "\u0041\u030a")
	case "percent":
		// percent signs: URL-encoded text, LIKE patterns, prices - and printf verbs for anything that formats with it
		return t + g.pick(" 50% off", "%20name", " %smith%", " 5%%", " 100%d %v %s", "%", " %!s(MISSING)", " %[1]q %x")
	case "lookalike":
		// text that contains what looks like JSON / shell-syntax tokens between delimiters (a $where body, an
		// error text pasted into a field): inside a string literal it is just characters
		return t + g.pick(` return {ratio:NaN}`, ` [1,Infinity]`, `,NaN,`, ` {"a":-Infinity,"b":NaN}`, ` :null}`, ` [NaN]`, ` {x:undefined}`, ` ,true,`, ` /* c */ // d`, ` \u0041\n`, ` 1e400,-0`, ` {"$date":1}`, ` }{ ][`)
	case "b64ish":
		return base64.StdEncoding.EncodeToString([]byte(t + t))
	case "upper":
		return strings.ToUpper(t)
	case "bslash":
		// a literal that ENDS with a backslash (Windows paths, DOMAIN\\user): the JSON text
		// then ends in \\" — a trap for hand-written string scanners
		return g.pick("C:\\data\\", "DOM\\", "") + t + "\\"
	case "pademail":
		// an address with stray surrounding white space is an ORDINARY string
		// (not e-mail-shaped) whose exact bytes must survive a decrypt round trip
		if g.NoEmail {
			return " " + t
		}
		return g.pick(" ", "  ", "\t") + g.Email() + g.pick("", " ", "\n")
	case "addr":
		// values that LOOK like network addresses (a client_ip field, a replica-set member): ordinary strings
		g.serial++
		n := g.serial
		v4 := fmt.Sprintf("%d.%d.%d.%d", 11+n/16777216%200, n/65536%256, n/256%256, n%256)
		v6 := fmt.Sprintf("2001:db8:%x:%x::%x", n/65536%65536, n%65536, g.rng(1, 65535))
		switch g.R.Intn(6) {
		case 0:
			return v4
		case 1:
			return fmt.Sprintf("%s:%d", v4, g.rng(1024, 65535))
		case 2:
			return v6
		case 3:
			return fmt.Sprintf("[%s]:%d", v6, g.rng(1024, 65535))
		case 4:
			return fmt.Sprintf("127.0.0.1:%d%03d", g.rng(10, 64), n%1000)
		}
		return fmt.Sprintf("mongo-%d.example.net:%d", n, g.rng(1024, 65535))
	case "pad":
		// leading / trailing white space must survive encryption round trips
		return g.pick(" ", "\t", "", "\n", "\u00a0") + t + g.pick(" ", "  ", "\n", "\t", "\r\n")
	}
	return t
}

func (g *Gen) Email() string {
	g.serial++
	if g.R.Intn(4) == 0 {
		// RFC 5322 dot-atom local parts beyond [a-z0-9]: still e-mail-shaped
		// (DESIGN §4 C02); the domain stays dotted with an alphabetic TLD.
		loc := g.pick("o'brien", "first/last=x", "a+tag", "x_y-z", "n!ce", "50%off", "a.b.c", "{curly}", "who?", "c#sharp", "tilde~", "p|pe", "`tick", "car^et", "amp&ersand", "st*r", "do$$ar")
		return fmt.Sprintf("%s%d@%s-%s.%s.%s", loc, g.serial, g.letters(g.rng(1, 5)), g.letters(2), g.letters(g.rng(2, 6)), g.pick("com", "org", "io", "museum"))
	}
	if g.R.Intn(6) == 0 {
		// upper-case letters in local part and domain are e-mail-shaped too
		return fmt.Sprintf("U%d%s@%s%s.%s", g.serial, strings.ToUpper(g.letters(g.rng(1, 4))), strings.ToUpper(g.letters(1)), g.letters(g.rng(1, 8)), g.pick("COM", "Org", "io"))
	}
	return fmt.Sprintf("u%d%s@%s.%s", g.serial, g.letters(g.rng(1, 6)), g.letters(g.rng(1, 10)), g.pick("com", "org", "io"))
}

// ISODate returns an ISO-8601 instant in one of the spellings MongoDB tools
// emit or accept: Z, +00:00 (RFC 3339), +0000 (strict Extended JSON v1 /
// mongoexport), hour-only offsets, with and without fractional seconds.
func (g *Gen) ISODate() string {
	base := fmt.Sprintf("20%02d-%02d-%02dT%02d:%02d:%02d", g.rng(0, 30), g.rng(1, 12), g.rng(1, 28), g.rng(0, 23), g.rng(0, 59), g.rng(0, 59))
	frac := fmt.Sprintf(".%03d", g.rng(0, 999))
	switch g.R.Intn(12) {
	case 0:
		frac = ""
	case 1:
		frac = fmt.Sprintf(".%06d", g.rng(0, 999999))
	}
	switch g.R.Intn(10) {
	case 0:
		return base + frac + "+00:00"
	case 1:
		return base + frac + "+0000"
	case 2:
		return base + frac + g.pick("-05", "+01", "-0530", "+05:30", "-08:00")
	}
	return base + frac + "Z"
}

func (g *Gen) OID() string {
	const h = "0123456789abcdef"
	b := make([]byte, 24)
	for i := range b {
		b[i] = h[g.R.Intn(16)]
	}
	// make sure it is not the all-zero placeholder
	b[0] = h[1+g.R.Intn(15)]
	return string(b)
}

func (g *Gen) B64() string {
	n := g.rng(9, 40)
	b := make([]byte, n)
	g.R.Read(b)
	b[0] |= 0x81
	return base64.StdEncoding.EncodeToString(b)
}

// Number returns a unique numeric literal text.
func (g *Gen) Number() string {
	g.serial++
	base := fmt.Sprintf("%d%04d", g.rng(1, 9), g.serial%10000) // unique-ish prefix
	switch g.R.Intn(8) {
	case 0:
		return base + fmt.Sprintf("%03d", g.R.Intn(1000))
	case 1:
		return "-" + base + fmt.Sprintf("%02d", g.R.Intn(100))
	case 2:
		return base + "." + fmt.Sprintf("%04d", g.rng(1, 9999))
	case 3:
		return base + fmt.Sprintf("%09d", g.R.Intn(1000000000)) // > 2^53 sometimes
	case 4:
		return "0." + base + "7"
	case 5:
		return base[:1] + "." + base[1:] + "e" + fmt.Sprint(g.rng(2, 30))
	case 6:
		return "-0." + base + "E-" + fmt.Sprint(g.rng(1, 9))
	}
	return base + fmt.Sprintf("%d", g.rng(10, 99))
}

func sens(n *Node, class, slot string) *Node {
	return n.With(&Tag{Role: Sens, Class: class, Slot: slot})
}
func keep(n *Node) *Node     { return n.With(&Tag{Role: Keep}) }
func free(n *Node) *Node     { return n.With(&Tag{Role: Free}) }
func FreeS(s string) *Node   { return free(StrN(s)) }
func FreeI(i int) *Node      { return free(IntN(i)) }
func FreeB(b bool) *Node     { return free(BoolN(b)) }
func KeepS(s string) *Node   { return keep(StrN(s)) }
func KeepI(i int) *Node      { return keep(IntN(i)) }
func KeepN(raw string) *Node { return keep(NumN(raw)) }

func (g *Gen) Ref() *Node {
	f := g.Field()
	if g.chance(0.1) {
		f = "$" + g.pick("ROOT", "NOW", "this", "value", "CURRENT")
	}
	return StrN("$" + f).With(&Tag{Role: Ref})
}

// Scalar classes
var classes = []string{"str", "str", "str", "str", "email", "date", "oid", "b64", "num", "num", "bool", "wrapnum", "null", "regex", "ts", "uuid", "datelong"}

// Lit returns a sensitive literal of a random class (scalar or extended-JSON
// wrapper) for the given slot.
func (g *Gen) Lit(slot string) *Node {
	return g.LitClass(classes[g.R.Intn(len(classes))], slot)
}

func (g *Gen) LitClass(class, slot string) *Node {
	switch class {
	case "email":
		if g.NoEmail {
			return sens(StrN(g.SensString()), "str", slot)
		}
		return sens(StrN(g.Email()), "email", slot)
	case "date":
		return ObjN("$date", sens(StrN(g.ISODate()), "date", slot))
	case "datelong":
		return ObjN("$date", ObjN("$numberLong", sens(StrN(g.Dress("digits")), "str", slot)))
	case "oid":
		return ObjN("$oid", sens(StrN(g.OID()), "oid", slot))
	case "b64":
		return ObjN("$binary", ObjN("base64", sens(StrN(g.B64()), "b64", slot), "subType", KeepS(g.pick("00", "04", "0", "80", "4", "3", "03", "09", "8"))))
	case "num":
		return sens(NumN(g.Number()), "num", slot)
	case "bool":
		return sens(BoolN(g.chance(0.7)), "bool", slot)
	case "wrapnum":
		return ObjN(g.pick("$numberLong", "$numberInt", "$numberDouble", "$numberDecimal"), sens(StrN(g.Dress("digits")), "str", slot))
	case "null":
		return NullN()
	case "regex":
		return ObjN("$regularExpression", ObjN("pattern", sens(StrN("^"+g.Token()+".*"), "str", slot), "options", FreeS("i")))
	case "ts":
		return ObjN("$timestamp", ObjN("t", sens(NumN(g.Number()), "num", slot), "i", sens(NumN(g.Number()), "num", slot)))
	case "uuid":
		return ObjN("$uuid", sens(StrN(g.Token()+"-4245-8eed-d64238a3096e"), "str", slot))
	}
	return sens(StrN(g.SensString()), "str", slot)
}

// Value returns a literal that may be a document or array of literals.
func (g *Gen) Value(slot string, d int) *Node {
	if d <= 0 {
		return g.Lit(slot)
	}
	switch g.R.Intn(10) {
	case 0:
		o := ObjN()
		for i, n := 0, g.rng(0, 3); i < n; i++ {
			o.Set(g.Field(), g.Value(slot+">doc", d-1))
		}
		return o
	case 1:
		a := ArrN()
		a.Vals = []*Node{}
		for i, n := 0, g.rng(0, 3); i < n; i++ {
			a.Vals = append(a.Vals, g.Value(slot+">arr", d-1))
		}
		return a
	case 2:
		// array of arrays
		in := ArrN(g.Lit(slot+">arr>arr"), g.Value(slot+">arr>arr", d-1))
		return ArrN(in, ArrN(g.Lit(slot+">arr>arr")))
	}
	return g.Lit(slot)
}

func (g *Gen) litArray(slot string, d int) *Node {
	a := &Node{K: Arr, Vals: []*Node{}}
	for i, n := 0, g.rng(1, 4); i < n; i++ {
		if d > 0 && g.chance(0.15) {
			a.Vals = append(a.Vals, g.Value(slot, d-1))
		} else {
			a.Vals = append(a.Vals, g.Lit(slot))
		}
	}
	return a
}

var cmpOps = []string{"$eq", "$ne", "$gt", "$gte", "$lt", "$lte"}

// Query generates a query predicate.
func (g *Gen) Query(d int) *Node {
	q := ObjN()
	n := g.rng(1, 3)
	for i := 0; i < n; i++ {
		g.queryMember(q, d)
	}
	return q
}

func (g *Gen) queryMember(q *Node, d int) {
	f := g.Field()
	c := g.R.Intn(30)
	if d <= 0 && c >= 17 && c <= 21 {
		c = 0
	}
	switch c {
	case 0, 1, 2:
		q.Set(f, g.Lit("filter-direct"))
	case 3, 4:
		op := cmpOps[g.R.Intn(len(cmpOps))]
		q.Set(f, ObjN(op, g.Lit("under-"+op)))
	case 5:
		q.Set(f, ObjN("$gte", g.Lit("under-$gte"), "$lt", g.Lit("under-$lt")))
	case 6, 7:
		op := g.pick("$in", "$nin", "$all")
		q.Set(f, ObjN(op, g.litArray("in-"+op, d)))
	case 8:
		if g.chance(0.5) {
			q.Set(f, ObjN("$elemMatch", g.Query(d-1)))
		} else {
			q.Set(f, ObjN("$elemMatch", ObjN("$gt", g.Lit("elemMatch-op"), "$lt", g.Lit("elemMatch-op"))))
		}
	case 9:
		q.Set(f, ObjN("$not", ObjN(cmpOps[g.R.Intn(len(cmpOps))], g.Lit("under-$not"))))
	case 10:
		q.Set(f, ObjN("$regex", sens(StrN("^"+g.SensString()), "str", "regex"), "$options", FreeS("i")))
	case 11:
		q.Set(f, ObjN("$exists", FreeB(g.chance(0.5))))
	case 12:
		q.Set(f, ObjN("$type", FreeS(g.pick("string", "int", "date"))))
	case 13:
		q.Set(f, ObjN("$mod", ArrN(sens(NumN(g.Number()), "num", "mod"), sens(NumN(g.Number()), "num", "mod"))))
	case 14:
		q.Set(f, ObjN("$size", sens(NumN(g.Number()), "num", "size")))
	case 15:
		if g.chance(0.5) {
			q.Set(f, ObjN(g.pick("$bitsAllSet", "$bitsAnyClear", "$bitsAllClear", "$bitsAnySet"), sens(NumN(g.Number()), "num", "bits")))
		} else {
			q.Set(f, ObjN("$bitsAnySet", ArrN(sens(NumN(g.Number()), "num", "bits"), sens(NumN(g.Number()), "num", "bits"))))
		}
	case 16:
		q.Set(f, g.geoPredicate())
	case 17:
		q.Set(f, g.Value("filter-subdoc", d-1))
	case 18:
		q.Set(f, ArrN(g.Lit("filter-array"), ObjN(g.Field(), g.Lit("filter-array-doc")), ArrN(g.Lit("filter-array-array"))))
	case 19, 20:
		op := g.pick("$and", "$or", "$nor")
		a := ArrN()
		for i, n := 0, g.rng(1, 3); i < n; i++ {
			a.Vals = append(a.Vals, g.Query(d-1))
		}
		q.Set(op, a)
	case 21:
		q.Set("$expr", g.Expr(d-1))
	case 22:
		q.Set("$where", sens(StrN("this.x == '"+g.Token()+"'"), "str", "where"))
	case 23:
		q.Set("$text", ObjN("$search", sens(StrN(g.SensString()), "str", "text-search"), "$language", FreeS("en"), "$caseSensitive", FreeB(false)))
	case 24:
		q.Set("$comment", sens(StrN(g.SensString()), "str", "comment-op"))
	case 25:
		q.Set("$jsonSchema", ObjN("required", ArrN(FreeS("name")), "properties",
			ObjN(f, ObjN("bsonType", FreeS("string"), "enum", g.litArray("jsonSchema-enum", 0), "pattern", sens(StrN("^"+g.Token()), "str", "jsonSchema-pattern")))))
	case 26:
		q.Set(f, ObjN("$in", ArrN(g.LitClass("regex", "in-regex"), g.Lit("in-$in"))))
	case 27:
		// dotted path with a nested operator document
		q.Set(f+"."+g.pick("sub", "0", "k"), ObjN("$ne", g.Lit("under-$ne")))
	default:
		q.Set(f, g.Lit("filter-direct"))
	}
}

func (g *Gen) coord() *Node {
	return ArrN(sens(NumN(g.Number()), "num", "geo"), sens(NumN(g.Number()), "num", "geo"))
}

func (g *Gen) geoPredicate() *Node {
	switch g.R.Intn(4) {
	case 0:
		return ObjN("$geoWithin", ObjN("$geometry", ObjN("type", FreeS("Polygon"), "coordinates", ArrN(ArrN(g.coord(), g.coord(), g.coord())))))
	case 1:
		return ObjN("$near", ObjN("$geometry", ObjN("type", FreeS("Point"), "coordinates", g.coord()), "$maxDistance", sens(NumN(g.Number()), "num", "geo")))
	case 2:
		return ObjN("$geoWithin", ObjN("$centerSphere", ArrN(g.coord(), sens(NumN(g.Number()), "num", "geo"))))
	}
	return ObjN("$geoIntersects", ObjN("$geometry", ObjN("type", FreeS("Point"), "coordinates", g.coord())))
}

var exprNary = []string{"$add", "$subtract", "$multiply", "$divide", "$concat", "$eq", "$ne", "$gt", "$lt", "$gte", "$lte", "$and", "$or", "$ifNull", "$cmp", "$max", "$min", "$mod", "$pow", "$setUnion", "$concatArrays", "$mergeObjects", "$strcasecmp", "$split", "$in", "$setIntersection", "$arrayElemAt", "$substrCP", "$indexOfCP", "$atan2", "$log"}
var exprUnary = []string{"$toString", "$toLower", "$toUpper", "$abs", "$ceil", "$floor", "$sqrt", "$not", "$size", "$type", "$toInt", "$toDate", "$trunc", "$isArray", "$reverseArray", "$strLenCP", "$year", "$month", "$toObjectId", "$objectToArray", "$first", "$last", "$sum", "$avg", "$exp", "$ln", "$log10", "$round", "$literal", "$isNumber", "$toDouble", "$toLong", "$toDecimal", "$toBool", "$bsonSize", "$binarySize", "$anyElementTrue", "$allElementsTrue", "$dayOfMonth", "$hour"}

// Expr generates an aggregation expression: literal operands are SENS,
// "$"-strings are REF.
func (g *Gen) Expr(d int) *Node {
	if d <= 0 {
		if g.chance(0.4) {
			return g.Ref()
		}
		return g.Lit("expr-operand")
	}
	switch g.R.Intn(18) {
	case 0, 1, 2, 3:
		op := exprNary[g.R.Intn(len(exprNary))]
		a := ArrN()
		for i, n := 0, g.rng(2, 3); i < n; i++ {
			a.Vals = append(a.Vals, g.Expr(d-1))
		}
		return ObjN(op, a)
	case 4, 5:
		op := exprUnary[g.R.Intn(len(exprUnary))]
		if g.chance(0.3) {
			return ObjN(op, ArrN(g.Expr(d-1)))
		}
		return ObjN(op, g.Expr(d-1))
	case 6:
		return ObjN("$cond", ObjN("if", g.Expr(d-1), "then", g.Expr(d-1), "else", g.Expr(d-1)))
	case 7:
		return ObjN("$cond", ArrN(g.Expr(d-1), g.Expr(d-1), g.Expr(d-1)))
	case 8:
		return ObjN("$switch", ObjN("branches", ArrN(ObjN("case", g.Expr(d-1), "then", g.Expr(d-1))), "default", g.Expr(d-1)))
	case 9:
		return ObjN("$let", ObjN("vars", ObjN("v1", g.Expr(d-1)), "in", g.Expr(d-1)))
	case 10:
		return ObjN("$map", ObjN("input", g.Expr(d-1), "as", FreeS("el"), "in", g.Expr(d-1)))
	case 11:
		return ObjN("$filter", ObjN("input", g.Expr(d-1), "as", FreeS("el"), "cond", g.Expr(d-1)))
	case 12:
		return ObjN("$reduce", ObjN("input", g.Expr(d-1), "initialValue", g.Expr(d-1), "in", g.Expr(d-1)))
	case 13:
		return ObjN("$regexMatch", ObjN("input", g.Expr(d-1), "regex", sens(StrN(g.Token()+".*"), "str", "expr-regex"), "options", FreeS("i")))
	case 14:
		return ObjN("$dateToString", ObjN("date", g.Expr(d-1), "format", FreeS("%Y-%m-%d")))
	case 15:
		return ObjN("$dateFromString", ObjN("dateString", g.Expr(d-1)))
	case 16:
		return ObjN("$in", ArrN(g.Expr(d-1), g.litArray("expr-in-list", 0)))
	}
	if g.chance(0.5) {
		return g.Ref()
	}
	return g.Lit("expr-operand")
}

// exprDoc: an expression that is guaranteed to be a document (for positions
// where a bare string would be a field path).
func (g *Gen) exprDoc(d int) *Node {
	for {
		e := g.Expr(max(d, 1))
		if e.K == Obj && e.T == nil && len(e.Keys) > 0 && strings.HasPrefix(e.Keys[0], "$") && !isWrapper(e.Keys[0]) {
			return e
		}
	}
}

func isWrapper(k string) bool {
	switch k {
	case "$date", "$oid", "$binary", "$numberLong", "$numberInt", "$numberDouble", "$numberDecimal", "$uuid", "$timestamp", "$regularExpression", "$minKey", "$maxKey":
		return true
	}
	return false
}

// UpdateDoc: operator-document form of an update specification.
func (g *Gen) UpdateDoc(d int) *Node {
	u := ObjN()
	for i, n := 0, g.rng(1, 3); i < n; i++ {
		switch g.R.Intn(14) {
		case 0, 1, 2:
			o := ObjN()
			for j, m := 0, g.rng(1, 3); j < m; j++ {
				o.Set(g.Field(), g.Value("update-$set", d-1))
			}
			u.Set(g.pick("$set", "$setOnInsert"), o)
		case 3:
			u.Set(g.pick("$inc", "$mul", "$min", "$max"), ObjN(g.Field(), g.LitClass(g.pick("num", "date", "num"), "update-arith")))
		case 4:
			u.Set("$push", ObjN(g.Field(), g.Value("update-$push", d-1)))
		case 5:
			u.Set("$push", ObjN(g.Field(), ObjN("$each", g.litArray("push-each", d-1), "$position", FreeI(0), "$slice", FreeI(-5), "$sort", ObjN("k", FreeI(1)))))
		case 6:
			u.Set("$addToSet", ObjN(g.Field(), ObjN("$each", g.litArray("addToSet-each", d-1))))
		case 7:
			u.Set("$addToSet", ObjN(g.Field(), g.Lit("update-$addToSet")))
		case 8:
			if g.chance(0.5) {
				u.Set("$pull", ObjN(g.Field(), ObjN("$in", g.litArray("pull-in", 0))))
			} else {
				u.Set("$pull", ObjN(g.Field(), ObjN("$gte", g.Lit("pull-cond"))))
			}
		case 9:
			u.Set("$pull", ObjN(g.Field(), g.Lit("update-$pull")))
		case 10:
			u.Set("$pullAll", ObjN(g.Field(), g.litArray("pullAll", 0)))
		case 11:
			u.Set("$unset", ObjN(g.Field(), FreeS("")))
		case 12:
			u.Set("$currentDate", ObjN(g.Field(), FreeB(true)))
		case 13:
			u.Set("$bit", ObjN(g.Field(), ObjN(g.pick("and", "or", "xor"), sens(NumN(g.Number()), "num", "update-bit"))))
		}
	}
	return u
}

// ReplacementDoc: a plain document of literals.
func (g *Gen) Doc(slot string, d int) *Node {
	o := ObjN()
	for i, n := 0, g.rng(1, 4); i < n; i++ {
		o.Set(g.Field(), g.Value(slot, d))
	}
	return o
}

// UpdatePipeline: pipeline form of an update.
func (g *Gen) UpdatePipeline(d int) *Node {
	a := ArrN()
	for i, n := 0, g.rng(1, 2); i < n; i++ {
		switch g.R.Intn(4) {
		case 0, 1:
			a.Vals = append(a.Vals, ObjN(g.pick("$set", "$addFields"), g.exprMap("update-pipeline", d)))
		case 2:
			a.Vals = append(a.Vals, ObjN("$replaceWith", g.exprMap("update-pipeline", d)))
		case 3:
			a.Vals = append(a.Vals, ObjN("$unset", FreeS(g.Field())))
		}
	}
	return a
}

func (g *Gen) exprMap(slot string, d int) *Node {
	o := ObjN()
	for i, n := 0, g.rng(1, 3); i < n; i++ {
		if g.chance(0.4) {
			o.Set(g.Field(), g.Lit(slot))
		} else {
			o.Set(g.Field(), g.Expr(d-1))
		}
	}
	return o
}

func (g *Gen) SortDoc() *Node {
	o := ObjN()
	for i, n := 0, g.rng(1, 2); i < n; i++ {
		o.Set(g.Field(), FreeI(g.pick2(1, -1)))
	}
	return o
}

func (g *Gen) pick2(a, b int) int {
	if g.chance(0.5) {
		return a
	}
	return b
}

// Stage returns one non-search pipeline stage. top tells whether the stage is
// an element of the command's own pipeline (depth 0).
func (g *Gen) Stage(d int, top bool) *Node {
	c := g.R.Intn(40)
	if d <= 0 && (c == 12 || c == 13 || c == 14 || c == 15) {
		c = 0
	}
	switch c {
	case 0, 1, 2, 3:
		return ObjN("$match", g.Query(d))
	case 4:
		return ObjN(g.pick("$addFields", "$set"), g.exprMap("addFields", d))
	case 5:
		p := ObjN()
		for i, n := 0, g.rng(1, 3); i < n; i++ {
			if g.chance(0.5) {
				p.Set(g.Field(), FreeI(g.pick2(0, 1)))
			} else {
				p.Set(g.Field(), g.exprDoc(d-1))
			}
		}
		return ObjN("$project", p)
	case 6:
		acc := ObjN("_id", g.groupID(d))
		for i, n := 0, g.rng(0, 2); i < n; i++ {
			acc.Set(g.pick("total", "cnt", "vals", "mx"), ObjN(g.pick("$sum", "$avg", "$push", "$addToSet", "$max", "$min", "$first", "$last"), g.Expr(d-1)))
		}
		return ObjN("$group", acc)
	case 7:
		return ObjN("$sort", g.SortDoc())
	case 8:
		return ObjN("$limit", KeepN(g.Number()))
	case 9:
		return ObjN("$skip", KeepN(g.Number()))
	case 10:
		return ObjN("$count", FreeS("total_"+g.letters(3)))
	case 11:
		if g.chance(0.5) {
			return ObjN("$unwind", FreeS("$"+g.Field()))
		}
		return ObjN("$unwind", ObjN("path", FreeS("$"+g.Field()), "preserveNullAndEmptyArrays", FreeB(true)))
	case 12:
		f := ObjN()
		for i, n := 0, g.rng(1, 2); i < n; i++ {
			f.Set(g.pick("fa", "fb", "fc"), g.Pipeline(d-1, false))
		}
		return ObjN("$facet", f)
	case 13:
		l := ObjN("from", g.nsFrom(), "let", ObjN("v1", g.Expr(0), "v2", g.Lit("lookup-let")), "pipeline", g.Pipeline(d-1, false), "as", FreeS("joined"))
		return ObjN("$lookup", l)
	case 14:
		switch g.R.Intn(5) {
		case 0, 1:
			return ObjN("$unionWith", ObjN("coll", g.nsColl(), "pipeline", g.Pipeline(d-1, false)))
		case 2:
			return ObjN("$unionWith", g.nsColl())
		}
		return ObjN("$lookup", ObjN("from", g.nsFrom(), "localField", FreeS(g.Field()), "foreignField", FreeS(g.Field()), "as", FreeS("joined")))
	case 15:
		var sw *Node
		switch g.R.Intn(4) {
		case 0:
			sw = g.Ref()
		case 1:
			sw = g.LitClass(g.pick("str", "email", "oid", "num"), "graphLookup-startWith")
		case 2:
			sw = ArrN(g.LitClass("str", "graphLookup-startWith"), g.LitClass("str", "graphLookup-startWith"))
		default:
			sw = g.exprDoc(d - 1)
		}
		return ObjN("$graphLookup", ObjN("from", g.nsFrom(), "startWith", sw, "connectFromField", FreeS(g.Field()), "connectToField", FreeS(g.Field()),
			"as", FreeS("chain"), "maxDepth", FreeI(3), "depthField", FreeS("depth"), "restrictSearchWithMatch", g.Query(d-1)))
	case 16:
		return ObjN("$replaceWith", g.exprMap("replaceWith", d))
	case 17:
		return ObjN("$replaceRoot", ObjN("newRoot", g.exprMap("replaceRoot", d)))
	case 18:
		b := ArrN()
		for i, n := 0, g.rng(2, 4); i < n; i++ {
			b.Vals = append(b.Vals, g.LitClass(g.pick("num", "num", "date", "str"), "bucket-boundaries"))
		}
		var gb *Node
		if g.chance(0.5) {
			gb = g.Ref()
		} else {
			gb = g.exprDoc(d - 1)
		}
		return ObjN("$bucket", ObjN("groupBy", gb, "boundaries", b, "default", g.LitClass(g.pick("str", "num"), "bucket-default"),
			"output", ObjN("count", ObjN("$sum", g.Lit("bucket-output")), "vals", ObjN("$push", g.Expr(d-1)))))
	case 19:
		var gb *Node
		if g.chance(0.5) {
			gb = g.Ref()
		} else {
			gb = g.exprDoc(d - 1)
		}
		return ObjN("$bucketAuto", ObjN("groupBy", gb, "buckets", FreeI(4), "output", ObjN("vals", ObjN("$push", g.Expr(d-1))), "granularity", FreeS("R5")))
	case 20:
		if g.chance(0.5) {
			return ObjN("$sortByCount", g.Ref())
		}
		return ObjN("$sortByCount", g.exprDoc(d-1))
	case 21:
		docs := ArrN()
		for i, n := 0, g.rng(1, 3); i < n; i++ {
			docs.Vals = append(docs.Vals, g.Doc("documents-stage", 1))
		}
		return ObjN("$documents", docs)
	case 22:
		return ObjN("$redact", ObjN("$cond", ObjN("if", g.Expr(d-1), "then", StrN("$$DESCEND").With(&Tag{Role: Ref}), "else", StrN("$$PRUNE").With(&Tag{Role: Ref}))))
	case 23:
		return ObjN("$geoNear", ObjN("near", ObjN("type", FreeS("Point"), "coordinates", g.coord()), "distanceField", FreeS("dist"),
			"maxDistance", sens(NumN(g.Number()), "num", "geoNear"), "query", g.Query(d-1), "spherical", FreeB(true)))
	case 24:
		return ObjN("$setWindowFields", ObjN("partitionBy", g.exprDoc(d-1), "sortBy", g.SortDoc(),
			"output", ObjN("w1", ObjN("$sum", g.Expr(d-1), "window", ObjN("documents", ArrN(FreeS("unbounded"), FreeS("current")))))))
	case 25:
		return ObjN("$densify", ObjN("field", FreeS(g.Field()), "range", ObjN("step", FreeI(1), "unit", FreeS("hour"),
			"bounds", ArrN(g.LitClass("date", "densify-bounds"), g.LitClass("date", "densify-bounds")))))
	case 26:
		return ObjN("$fill", ObjN("sortBy", g.SortDoc(), "output", ObjN(g.Field(), ObjN("value", g.Lit("fill-value")), g.Field()+"2", ObjN("method", FreeS("linear")))))
	case 27:
		if top {
			return ObjN("$sample", ObjN("size", KeepN(g.Number())))
		}
		return ObjN("$sample", ObjN("size", FreeI(5)))
	case 28:
		return ObjN("$unset", FreeS(g.Field()))
	case 29:
		return g.mergeStage(d)
	case 30:
		return g.outStage()
	case 31:
		return ObjN("$changeStream", ObjN("fullDocument", FreeS("updateLookup"), "resumeAfter", ObjN("_data", sens(StrN(g.Token()+"8264"), "str", "changeStream-resume"))))
	case 32:
		return ObjN("$listSessions", ObjN("users", ArrN(ObjN("user", sens(StrN(g.Token()), "str", "listSessions-users"), "db", sens(StrN(g.Token()), "str", "listSessions-users")))))
	case 33:
		return ObjN(g.pick("$collStats", "$indexStats", "$planCacheStats", "$currentOp", "$listLocalSessions"), ObjN())
	default:
		return ObjN("$match", g.Query(d))
	}
}

func (g *Gen) groupID(d int) *Node {
	switch g.R.Intn(4) {
	case 0:
		return NullN()
	case 1:
		return g.Ref()
	case 2:
		return ObjN("k1", g.Ref(), "k2", g.Expr(d-1))
	}
	return g.Lit("group-id")
}

func (g *Gen) nsColl() *Node {
	return StrN(g.pick("other_coll", "lk_"+g.letters(4), "Orders")).With(&Tag{Role: NsColl, Slot: "stage"})
}
func (g *Gen) nsDB() *Node {
	return StrN(g.pick("other_db", "db_"+g.letters(4))).With(&Tag{Role: NsDB, Slot: "stage"})
}

// nsDoc is the document form of a namespace argument: {db, coll} in either
// key order (documents are unordered for the server), for $out optionally
// with the timeseries member.
func (g *Gen) nsDoc(out bool) *Node {
	var o *Node
	if g.chance(0.5) {
		o = ObjN("db", g.nsDB(), "coll", g.nsColl())
	} else {
		o = ObjN("coll", g.nsColl(), "db", g.nsDB())
	}
	if out && g.chance(0.4) {
		o.Set("timeseries", free(ObjN("timeField", StrN("ts"), "metaField", StrN("meta"), "granularity", StrN("hours"))))
	}
	return o
}

// nsFrom is the value of $lookup.from / $graphLookup.from: a collection name
// or (cross-database lookups) a {db, coll} document.
func (g *Gen) nsFrom() *Node {
	if g.chance(0.2) {
		return g.nsDoc(false)
	}
	return g.nsColl()
}

func (g *Gen) mergeStage(d int) *Node {
	var into *Node
	switch g.R.Intn(3) {
	case 0:
		return ObjN("$merge", g.nsColl())
	case 1:
		into = g.nsColl()
	case 2:
		into = g.nsDoc(false)
	}
	m := ObjN("into", into, "on", FreeS("_id"))
	switch g.R.Intn(3) {
	case 0:
		m.Set("whenMatched", FreeS(g.pick("replace", "merge", "keepExisting")))
	case 1:
		m.Set("let", ObjN("v1", g.Lit("merge-let")))
		m.Set("whenMatched", ArrN(ObjN("$addFields", g.exprMap("merge-whenMatched", d))))
	}
	m.Set("whenNotMatched", FreeS("insert"))
	return ObjN("$merge", m)
}

func (g *Gen) outStage() *Node {
	if g.chance(0.5) {
		return ObjN("$out", g.nsColl())
	}
	return ObjN("$out", g.nsDoc(true))
}

// Pipeline generates 1–4 stages; with top=true one of them may be an Atlas
// Search / vector-search stage (always first, as MongoDB requires).
func (g *Gen) Pipeline(d int, top bool) *Node {
	p := ArrN()
	if top && g.chance(0.25) {
		p.Vals = append(p.Vals, g.SearchStage(d))
	}
	for i, n := 0, g.rng(1, 3); i < n; i++ {
		p.Vals = append(p.Vals, g.Stage(d, top))
	}
	return p
}

// ---------------------------------------------------------------- search

func (g *Gen) path() *Node { return FreeS(g.Field()) }

func (g *Gen) SearchOp(d int) *Node {
	c := g.R.Intn(17)
	if d <= 0 && (c == 11 || c == 12) {
		c = 0
	}
	switch c {
	case 0, 1:
		return ObjN("text", ObjN("query", g.searchQuery("search-text"), "path", g.path(), "fuzzy", ObjN("maxEdits", FreeI(1))))
	case 2:
		return ObjN("phrase", ObjN("query", g.searchQuery("search-phrase"), "path", g.path(), "slop", FreeI(2)))
	case 3:
		return ObjN("autocomplete", ObjN("query", sens(StrN(g.SensString()), "str", "search-autocomplete"), "path", g.path(), "tokenOrder", FreeS("any")))
	case 4:
		return ObjN(g.pick("wildcard", "regex"), ObjN("query", sens(StrN(g.SensString()+"*"), "str", "search-wildcard"), "path", g.path(), "allowAnalyzedField", FreeB(true)))
	case 5:
		return ObjN("equals", ObjN("path", g.path(), "value", g.LitClass(g.pick("str", "num", "bool", "oid", "date", "email", "b64", "uuid"), "search-equals")))
	case 6:
		return ObjN("in", ObjN("path", g.path(), "value", g.litArray("search-in", 0)))
	case 7:
		r := ObjN("path", g.path())
		cl := g.pick("num", "date", "str")
		r.Set(g.pick("gt", "gte"), g.LitClass(cl, "search-range"))
		r.Set(g.pick("lt", "lte"), g.LitClass(cl, "search-range"))
		return ObjN("range", r)
	case 8:
		return ObjN("near", ObjN("path", g.path(), "origin", g.LitClass(g.pick("num", "date"), "search-near"), "pivot", FreeI(2)))
	case 9:
		return ObjN("queryString", ObjN("defaultPath", g.path(), "query", sens(StrN(g.Token()+" AND "+g.Token()), "str", "search-queryString")))
	case 10:
		return ObjN("exists", ObjN("path", g.path()))
	case 11:
		cp := ObjN()
		for _, k := range []string{"must", "mustNot", "should", "filter"} {
			if g.chance(0.5) {
				a := ArrN()
				for i, n := 0, g.rng(1, 2); i < n; i++ {
					a.Vals = append(a.Vals, g.SearchOp(d-1))
				}
				cp.Set(k, a)
			}
		}
		if len(cp.Keys) == 0 {
			cp.Set("must", ArrN(g.SearchOp(d-1)))
		}
		cp.Set("minimumShouldMatch", FreeI(1))
		return ObjN("compound", cp)
	case 12:
		return ObjN("embeddedDocument", ObjN("path", g.path(), "operator", g.SearchOp(d-1)))
	case 13:
		return ObjN("moreLikeThis", ObjN("like", ObjN(g.Field(), g.LitClass("str", "search-moreLikeThis"))))
	case 14:
		return ObjN("geoWithin", ObjN("path", g.path(), "circle", ObjN("center", ObjN("type", FreeS("Point"), "coordinates", g.coord()), "radius", sens(NumN(g.Number()), "num", "search-geo"))))
	case 15:
		return ObjN("geoShape", ObjN("relation", FreeS("disjoint"), "geometry", ObjN("type", FreeS("Polygon"), "coordinates", ArrN(ArrN(g.coord(), g.coord()))), "path", g.path()))
	case 16:
		return ObjN("span", ObjN("term", ObjN("path", g.path(), "query", sens(StrN(g.SensString()), "str", "search-span-term"))))
	}
	return nil
}

func (g *Gen) searchQuery(slot string) *Node {
	if g.chance(0.25) {
		return ArrN(sens(StrN(g.SensString()), "str", slot), sens(StrN(g.SensString()), "str", slot))
	}
	return sens(StrN(g.SensString()), "str", slot)
}

func (g *Gen) SearchStage(d int) *Node {
	switch g.R.Intn(6) {
	case 0, 1, 2:
		s := ObjN("index", KeepS("idx_"+g.letters(4)))
		op := g.SearchOp(d)
		s.Set(op.Keys[0], op.Vals[0])
		if g.chance(0.3) {
			s.Set("highlight", ObjN("path", g.path()))
		}
		if g.chance(0.3) {
			s.Set("count", ObjN("type", FreeS("total")))
		}
		if g.chance(0.2) {
			s.Set("returnStoredSource", FreeB(true))
		}
		return ObjN(g.pick("$search", "$search", "$searchMeta"), s)
	case 3:
		fac := ObjN("operator", g.SearchOp(d), "facets", ObjN("f1", ObjN("type", FreeS("string"), "path", g.path(), "numBuckets", FreeI(5))))
		return ObjN("$searchMeta", ObjN("index", KeepS("idx_"+g.letters(4)), "facet", fac))
	case 4:
		v := ArrN()
		for i, n := 0, g.rng(2, 6); i < n; i++ {
			v.Vals = append(v.Vals, sens(NumN(g.Number()), "num", "vector"))
		}
		vs := ObjN("index", KeepS("vidx_"+g.letters(4)), "path", g.path(), "queryVector", v, "numCandidates", KeepN(g.Number()), "limit", KeepN(g.Number()))
		if g.chance(0.5) {
			vs.Set("filter", g.simpleQuery())
		}
		return ObjN("$vectorSearch", vs)
	case 5:
		v := ArrN(sens(NumN(g.Number()), "num", "vector"), sens(NumN(g.Number()), "num", "vector"))
		p1 := ArrN(ObjN("$vectorSearch", ObjN("index", FreeS("vi"), "path", g.path(), "queryVector", v, "numCandidates", FreeI(10), "limit", FreeI(2))))
		p2 := ArrN(ObjN("$search", ObjN("index", FreeS("si"), "text", ObjN("query", sens(StrN(g.SensString()), "str", "rankFusion-search"), "path", g.path()))), ObjN("$limit", KeepN(g.Number())))
		return ObjN("$rankFusion", ObjN("input", ObjN("pipelines", ObjN("pa", p1, "pb", p2)), "combination", ObjN("weights", ObjN("pa", FreeI(1), "pb", FreeI(2)))))
	}
	return nil
}

func (g *Gen) simpleQuery() *Node {
	q := ObjN()
	q.Set(g.Field(), g.LitClass(g.pick("str", "num", "bool"), "vector-filter"))
	if g.chance(0.5) {
		q.Set(g.Field()+"_2", ObjN(g.pick("$gte", "$lt", "$eq", "$ne"), g.LitClass(g.pick("str", "num"), "vector-filter")))
	}
	if g.chance(0.3) {
		q.Set(g.Field()+"_3", ObjN("$in", g.litArray("vector-filter-in", 0)))
	}
	return q
}
