package gen

import (
	"strings"
	. "verif/jt"
)

// Namespace-focused corpus for C12 (also feeds C03/C04/C10): every declared
// verb and alias, getMore, and the namespace-bearing pipeline stages in every
// form at depth 0–3.

// NsNames is a pool of database / collection names for one log. Names whose
// Class is "common" are not unique (system.*, $cmd) and are not leak-searched.
type NsNames struct {
	DBs, Colls []string
}

func (g *Gen) NsNamePool() NsNames {
	t := g.letters(6)
	u := g.letters(6)
	return NsNames{
		// names that begin like a pseudonym of the replacement texts in use ("REDACTED_…", "anon_…", "_…")
		DBs:   []string{"shop" + t, "shop" + t + "_archive", "Δβ" + u, "db-" + u, "anon_" + u, "REDACTED_" + t, "admin"},
		Colls: []string{"orders" + t, "orders" + t + ".archive", "orders" + t + "_v2", "c" + u + "é漢", "anon_" + t, "_" + u + "x", "77" + g.digits(5), "20" + g.digits(2) + "." + g.digits(6), "arch" + t + ".2024", "eu(" + t, "c++" + u, "tmp[" + t, "jobs(*)" + u, "a|b" + t, "REDACTED_" + u, "system.views", "system.buckets." + u, "$cmd", "oplog.rs", "a." + t + ".b.c"},
	}
}

func (g *Gen) nsC(n NsNames) *Node {
	return StrN(n.Colls[g.R.Intn(len(n.Colls)-3)]).With(&Tag{Role: NsColl, Slot: "stage"}) // never $cmd / oplog.rs as a stage argument
}
func (g *Gen) nsD(n NsNames) *Node {
	return StrN(n.DBs[g.R.Intn(len(n.DBs))]).With(&Tag{Role: NsDB, Slot: "stage"})
}
func (g *Gen) nsDocOf(n NsNames, out bool) *Node {
	var o *Node
	if g.chance(0.5) {
		o = ObjN("db", g.nsD(n), "coll", g.nsC(n))
	} else {
		o = ObjN("coll", g.nsC(n), "db", g.nsD(n))
	}
	if out && g.chance(0.4) {
		o.Set("timeseries", free(ObjN("timeField", StrN("ts"), "metaField", StrN("meta"))))
	}
	return o
}

// NsStage returns a namespace-bearing stage; with d > 0 it may be wrapped in
// $facet / $lookup.pipeline / $unionWith.pipeline.
func (g *Gen) NsStage(n NsNames, d int) *Node {
	if d > 0 && g.chance(0.55) {
		inner := ArrN(ObjN("$match", g.simpleQuery()), g.NsStage(n, d-1))
		if g.chance(0.3) {
			// a sub-pipeline may open with a search stage ($search inside $lookup / $unionWith)
			inner = ArrN(ObjN("$search", ObjN("index", FreeS("sub_idx"), "text", ObjN("query", g.LitClass("str", "ns-sub-search"), "path", g.path()))), g.NsStage(n, d-1), ObjN("$limit", KeepI(3)))
		}
		switch g.R.Intn(3) {
		case 0:
			return ObjN("$facet", ObjN("f1", inner, "f2", ArrN(g.NsStage(n, d-1))))
		case 1:
			return ObjN("$lookup", ObjN("from", g.nsC(n), "let", ObjN("v", g.Ref()), "pipeline", inner, "as", FreeS("j")))
		default:
			return ObjN("$unionWith", ObjN("coll", g.nsC(n), "pipeline", inner))
		}
	}
	switch g.R.Intn(11) {
	case 0:
		return ObjN("$lookup", ObjN("from", g.nsC(n), "localField", FreeS("a"), "foreignField", FreeS("b"), "as", FreeS("j")))
	case 1:
		return ObjN("$lookup", ObjN("from", g.nsDocOf(n, false), "localField", FreeS("a"), "foreignField", FreeS("b"), "as", FreeS("j")))
	case 2:
		return ObjN("$graphLookup", ObjN("from", g.nsC(n), "startWith", g.Ref(), "connectFromField", FreeS("a"), "connectToField", FreeS("b"), "as", FreeS("c")))
	case 3:
		return ObjN("$unionWith", g.nsC(n))
	case 4:
		return ObjN("$unionWith", ObjN("coll", g.nsC(n)))
	case 5:
		return ObjN("$merge", g.nsC(n))
	case 6:
		return ObjN("$merge", ObjN("into", g.nsC(n), "whenMatched", FreeS("replace")))
	case 7:
		return ObjN("$merge", ObjN("into", g.nsDocOf(n, false), "on", FreeS("_id")))
	case 8:
		return ObjN("$out", g.nsC(n))
	case 9:
		return ObjN("$out", g.nsDocOf(n, true))
	default:
		return ObjN("$lookup", ObjN("from", g.nsC(n), "pipeline", ArrN(ObjN("$match", g.simpleQuery())), "as", FreeS("j")))
	}
}

var NsVerbs = []string{"find", "aggregate", "insert", "update", "delete", "count", "findAndModify", "findOneAndUpdate", "findOneAndDelete", "findOneAndReplace", "countDocuments", "getMore",
	// the server's own alias of findAndModify (both spellings are accepted and logged as typed)
	"findandmodify"}

// NsCase builds one line for namespace db.coll.
func (g *Gen) NsCase(n NsNames, db, coll, verb, carrier string, depth int) *Case {
	cn := func() *Node { return StrN(coll).With(&Tag{Role: NsColl}) }
	var cmd *Node
	switch verb {
	case "find":
		cmd = ObjN("find", cn(), "filter", g.simpleQuery())
	case "aggregate":
		p := ArrN(ObjN("$match", g.simpleQuery()))
		for i, k := 0, g.rng(1, 3); i < k; i++ {
			p.Vals = append(p.Vals, g.NsStage(n, depth))
		}
		cmd = ObjN("aggregate", cn(), "pipeline", p, "cursor", keep(ObjN()))
	case "insert":
		cmd = ObjN("insert", cn(), "documents", ArrN(g.Doc("insert-doc", 1)), "ordered", keep(BoolN(true)))
	case "update":
		cmd = ObjN("update", cn(), "updates", ArrN(ObjN("q", g.simpleQuery(), "u", ObjN("$set", ObjN("x", g.Lit("update-set"))), "multi", FreeB(false))), "ordered", keep(BoolN(true)))
	case "delete":
		cmd = ObjN("delete", cn(), "deletes", ArrN(ObjN("q", g.simpleQuery(), "limit", FreeI(1))), "ordered", keep(BoolN(true)))
	case "count", "countDocuments":
		cmd = ObjN(verb, cn(), "query", g.simpleQuery())
	case "findAndModify", "findOneAndUpdate", "findOneAndReplace", "findandmodify":
		cmd = ObjN(verb, cn(), "query", g.simpleQuery(), "update", ObjN("$set", ObjN("x", g.Lit("update-set"))), "new", keep(BoolN(true)))
	case "findOneAndDelete":
		cmd = ObjN(verb, cn(), "query", g.simpleQuery())
	case "getMore":
		cmd = ObjN("getMore", KeepN("8450170943150897632"), "collection", cn(), "batchSize", KeepI(101))
	}
	if coll == "$cmd" {
		// collection-less command: {aggregate: 1}; only attr.ns names "$cmd"
		cmd = ObjN("aggregate", KeepI(1), "pipeline", ArrN(ObjN("$currentOp", free(ObjN())), g.NsStage(n, depth)), "cursor", keep(ObjN()))
		verb = "aggregate"
	}
	if g.chance(0.4) {
		for _, zone := range []string{"filter", "query"} {
			if z := cmd.Get(zone); z != nil && z.K == Obj {
				z.Set(g.pick("collection", "ns", "find", "update", "count", "insert", "delete", "aggregate", "replace", "findAndModify"), g.LitClass("str", "ns-like-user-field"))
			}
		}
	}
	cmd.Set("lsid", g.lsid())
	if !g.chance(0.15) {
		cmd.Set("$db", StrN(db).With(&Tag{Role: NsDB}))
	} // else: a command document logged without $db (legacy OP_QUERY lines, "protocol":"op_query"); every
	// other name in it is still a name
	if verb == "getMore" {
		carrier = "command"
	}
	attrNs := ""
	if coll != "$cmd" && carrier != "originatingCommand" && verb != "getMore" && g.chance(0.12) {
		// commands are logged under the command namespace "<db>.$cmd" by many server versions (write
		// commands, findAndModify, count ...): attr.ns then does NOT name the collection the verb names
		attrNs = db + ".$cmd"
	}
	cs := g.Case(CaseOpts{Verb: verb, Carrier: carrier, Comp: Comps[g.R.Intn(3)], DB: db, Coll: coll, Cmd: cmd, AttrNs: attrNs})
	if g.chance(0.15) {
		// a failed operation carries the server's error text (no names planted in it)
		if attr := cs.Line.Get("attr"); attr != nil && attr.K == Obj {
			attr.Set("errMsg", KeepS("E11000 duplicate key error index: _id_ dup key: { _id: 1 } (attempt 2 of 3)"))
		}
	}
	return cs
}

// NsLog builds a multi-line log mixing 2–6 namespaces of one pool.
func (g *Gen) NsLog(lines int) ([]*Case, NsNames) {
	n := g.NsNamePool()
	k := g.rng(2, 6)
	type ns struct{ db, coll string }
	var nss []ns
	for i := 0; i < k; i++ {
		nss = append(nss, ns{n.DBs[g.R.Intn(len(n.DBs))], n.Colls[g.R.Intn(len(n.Colls))]})
	}
	var out []*Case
	for i := 0; i < lines; i++ {
		x := nss[g.R.Intn(len(nss))]
		verb := NsVerbs[(i+g.R.Intn(3))%len(NsVerbs)]
		if x.coll == "$cmd" {
			verb = "aggregate" // db.$cmd lines: collection-less aggregate ({aggregate: 1}) is modelled as a namespace of its own
		}
		car := Carriers[g.R.Intn(3)]
		if x.coll == "$cmd" && car == "originatingCommand" {
			car = "command" // a getMore names a real collection, never $cmd
		}
		cs := g.NsCase(n, x.db, x.coll, verb, car, i%4)
		out = append(out, cs)
		if i%7 == 3 && x.coll != "$cmd" && strings.ToUpper(x.coll[:1])+x.coll[1:] != x.coll {
			// the very next line: the same operation on a collection whose name differs only in letter case
			// (collection names are case-sensitive: "Orders" and "orders" are two collections, two names)
			out = append(out, g.NsCase(n, x.db, strings.ToUpper(x.coll[:1])+x.coll[1:], verb, Carriers[0], i%4))
		}
		if i%9 == 4 {
			// the next batch of a database-wide change stream: the cursor lives in the command namespace, so
			// attr.ns is "<db>.$cmd.aggregate" and getMore names the collection "$cmd.aggregate"
			gm := ObjN("getMore", KeepN("8450170943150897632"), "collection", StrN("$cmd.aggregate").With(&Tag{Role: NsColl}), "batchSize", KeepI(101), "lsid", g.lsid(), "$db", StrN(x.db).With(&Tag{Role: NsDB}))
			out = append(out, g.Case(CaseOpts{Verb: "getMore", Carrier: "command", Comp: "COMMAND", DB: x.db, Coll: "$cmd.aggregate", Cmd: gm}))
		}
		if cs.Carrier == "originatingCommand" && g.chance(0.7) {
			// the next batches of the same cursor repeat the originating command verbatim
			out = append(out, cs)
			if g.chance(0.5) {
				out = append(out, cs)
			}
		}
	}
	return out, n
}
