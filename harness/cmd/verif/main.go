// verif — driver of the runtime monitors for anonymongo (see /verif/DESIGN.md).
package main

import (
	"fmt"
	"os"

	"verif/checks"
)

func usage() {
	fmt.Fprintln(os.Stderr, "usage: verif check <C01..C20> [--tier quick|thorough] | verif replay <file> | verif list")
	os.Exit(2)
}

func main() {
	if len(os.Args) < 2 {
		usage()
	}
	switch os.Args[1] {
	case "check":
		if len(os.Args) < 3 {
			usage()
		}
		id := os.Args[2]
		for i := 3; i < len(os.Args); i++ {
			if os.Args[i] == "--tier" && i+1 < len(os.Args) {
				os.Setenv("VERIF_TIER", os.Args[i+1])
				i++
			}
		}
		f, ok := checks.Registry[id]
		if !ok {
			fmt.Fprintln(os.Stderr, "unknown property", id)
			os.Exit(2)
		}
		os.Exit(f())
	case "replay":
		if len(os.Args) < 3 {
			usage()
		}
		os.Exit(checks.Replay(os.Args[2]))
	case "list":
		for _, id := range checks.IDs() {
			fmt.Println(id)
		}
	default:
		usage()
	}
}
