// mutgen enumerates first-order source mutants of the repository's non-test
// Go files (AST level) for the sensitivity self-test (selftest/mutsweep.py).
//
//	mutgen -root <repo> list                 one JSON object per mutant on stdout
//	mutgen -root <copy> apply <id>           rewrite the mutated file inside <copy>
//
// Mutant ids are stable for a given source text: <file>:<kind>:<ordinal>.
// The operators are the usual small set: negated conditions, relational /
// logical / arithmetic operator swaps, deleted call and assignment
// statements, dropped continue/break, error returns turned into nil,
// integer and boolean literal changes, string literals in key positions
// (table keys, case labels, comparison operands, string lists), and swaps
// between the operator-type constants of the tool's tables.
package main

import (
	"bytes"
	"encoding/json"
	"flag"
	"fmt"
	"go/ast"
	"go/parser"
	"go/printer"
	"go/token"
	"os"
	"path/filepath"
	"sort"
	"strconv"
	"strings"
)

type mutant struct {
	ID   string `json:"id"`
	File string `json:"file"`
	Line int    `json:"line"`
	Func string `json:"func"`
	Kind string `json:"kind"`
	From string `json:"from"`
	To   string `json:"to"`
}

var opTypes = []string{"Pipeline", "Exempt", "Redactable", "FieldName", "OperatorArray", "OperatorMap", "Namespace"}

func isOpType(s string) bool {
	for _, t := range opTypes {
		if t == s {
			return true
		}
	}
	return false
}

var binSwap = map[token.Token][]token.Token{
	token.EQL: {token.NEQ}, token.NEQ: {token.EQL},
	token.LSS: {token.LEQ, token.GTR}, token.LEQ: {token.LSS}, token.GTR: {token.GEQ, token.LSS}, token.GEQ: {token.GTR},
	token.LAND: {token.LOR}, token.LOR: {token.LAND},
	token.ADD: {token.SUB}, token.SUB: {token.ADD},
}

// keyCall: call names whose string arguments are look-up keys
var keyCall = map[string]bool{"Get": true, "Set": true, "Has": true, "Delete": true, "HasPrefix": true, "HasSuffix": true, "Contains": true, "TrimLeft": true, "TrimPrefix": true, "TrimSuffix": true, "Split": true, "SplitN": true, "Join": true, "EqualFold": true, "Index": true, "LastIndex": true, "Getenv": true, "LookupEnv": true, "ReplaceAll": true, "MustCompile": true, "Header.Get": true, "Header.Set": true}

type site struct {
	m     mutant
	apply func()
	undo  func()
}

func render(fset *token.FileSet, n any) string {
	var b bytes.Buffer
	printer.Fprint(&b, fset, n)
	s := b.String()
	if len(s) > 160 {
		s = s[:160] + "…"
	}
	return strings.Join(strings.Fields(s), " ")
}

func collect(fset *token.FileSet, f *ast.File, rel string) []site {
	var sites []site
	count := map[string]int{}
	curFunc := ""
	add := func(pos token.Pos, kind, from, to string, apply, undo func()) {
		count[kind]++
		id := fmt.Sprintf("%s:%s:%d", rel, kind, count[kind])
		sites = append(sites, site{mutant{id, rel, fset.Position(pos).Line, curFunc, kind, from, to}, apply, undo})
	}
	var stack []ast.Node
	errFunc := func() bool {
		for i := len(stack) - 1; i >= 0; i-- {
			var ft *ast.FuncType
			switch fn := stack[i].(type) {
			case *ast.FuncDecl:
				ft = fn.Type
			case *ast.FuncLit:
				ft = fn.Type
			default:
				continue
			}
			if ft.Results != nil && len(ft.Results.List) > 0 {
				if id, ok := ft.Results.List[len(ft.Results.List)-1].Type.(*ast.Ident); ok && id.Name == "error" {
					return true
				}
			}
			return false
		}
		return false
	}
	var walkBlock func(list *[]ast.Stmt)
	walkBlock = func(list *[]ast.Stmt) {
		for i := range *list {
			i := i
			st := (*list)[i]
			del := func(kind string) {
				from := render(fset, st)
				add(st.Pos(), kind, from, "(deleted)", func() {
					(*list)[i] = &ast.AssignStmt{Lhs: []ast.Expr{ast.NewIdent("_")}, Tok: token.ASSIGN, Rhs: []ast.Expr{&ast.BasicLit{Kind: token.INT, Value: "0"}}}
				}, func() { (*list)[i] = st })
			}
			switch s := st.(type) {
			case *ast.ExprStmt:
				if _, ok := s.X.(*ast.CallExpr); ok {
					del("del-call")
				}
			case *ast.AssignStmt:
				if s.Tok != token.DEFINE {
					del("del-assign")
				}
			case *ast.IncDecStmt:
				del("del-assign")
			case *ast.BranchStmt:
				if s.Tok == token.CONTINUE || s.Tok == token.BREAK {
					del("del-branch")
				}
			case *ast.DeferStmt:
				del("del-defer")
			case *ast.ReturnStmt:
				if errFunc() && len(s.Results) > 0 {
					last := s.Results[len(s.Results)-1]
					if id, ok := last.(*ast.Ident); !ok || id.Name != "nil" {
						k := len(s.Results) - 1
						add(s.Pos(), "ret-nil", render(fset, s), "last result nil", func() { s.Results[k] = ast.NewIdent("nil") }, func() { s.Results[k] = last })
					}
				}
			}
		}
	}
	ast.Inspect(f, func(n ast.Node) bool {
		if n == nil {
			stack = stack[:len(stack)-1]
			return true
		}
		stack = append(stack, n)
		switch x := n.(type) {
		case *ast.FuncDecl:
			curFunc = x.Name.Name
		case *ast.BlockStmt:
			walkBlock(&x.List)
		case *ast.CaseClause:
			walkBlock(&x.Body)
			for i := range x.List {
				i := i
				if bl, ok := x.List[i].(*ast.BasicLit); ok && bl.Kind == token.STRING {
					old := bl.Value
					nv := strconv.Quote(mustUnquote(old) + "_")
					add(bl.Pos(), "str-key", old, nv, func() { bl.Value = nv }, func() { bl.Value = old })
				}
			}
		case *ast.CommClause:
			walkBlock(&x.Body)
		case *ast.IfStmt:
			old := x.Cond
			add(x.Pos(), "cond-neg", render(fset, old), "!(…)", func() { x.Cond = &ast.UnaryExpr{Op: token.NOT, X: &ast.ParenExpr{X: old}} }, func() { x.Cond = old })
			if x.Else != nil {
				oe := x.Else
				add(x.Pos(), "del-else", "else "+render(fset, oe), "(deleted)", func() { x.Else = nil }, func() { x.Else = oe })
			}
		case *ast.BinaryExpr:
			for _, to := range binSwap[x.Op] {
				to := to
				old := x.Op
				add(x.OpPos, "binop", render(fset, x), to.String(), func() { x.Op = to }, func() { x.Op = old })
			}
			if x.Op == token.EQL || x.Op == token.NEQ {
				for _, side := range []ast.Expr{x.X, x.Y} {
					if bl, ok := side.(*ast.BasicLit); ok && bl.Kind == token.STRING {
						old := bl.Value
						nv := strconv.Quote(mustUnquote(old) + "_")
						add(bl.Pos(), "str-key", render(fset, x), nv, func() { bl.Value = nv }, func() { bl.Value = old })
					}
				}
			}
			if x.Op == token.LAND || x.Op == token.LOR {
				// drop one operand
				ox, oy := x.X, x.Y
				add(x.OpPos, "drop-operand", render(fset, x), "left only", func() { x.Y = ox }, func() { x.Y = oy })
				add(x.OpPos, "drop-operand", render(fset, x), "right only", func() { x.X = oy }, func() { x.X = ox })
			}
		case *ast.UnaryExpr:
			if x.Op == token.NOT {
				// !e -> e  : replace by double negation removal via paren trick
				old := x.X
				add(x.OpPos, "not-del", render(fset, x), "negation removed", func() { x.Op = token.ADD; x.X = &ast.CallExpr{Fun: ast.NewIdent("__id"), Args: []ast.Expr{old}} }, func() { x.Op = token.NOT; x.X = old })
			}
		case *ast.CallExpr:
			name := ""
			switch fn := x.Fun.(type) {
			case *ast.SelectorExpr:
				name = fn.Sel.Name
			case *ast.Ident:
				name = fn.Name
			}
			if keyCall[name] {
				for i := range x.Args {
					if bl, ok := x.Args[i].(*ast.BasicLit); ok && bl.Kind == token.STRING {
						old := bl.Value
						nv := strconv.Quote(mustUnquote(old) + "_")
						add(bl.Pos(), "str-key", render(fset, x), nv, func() { bl.Value = nv }, func() { bl.Value = old })
					}
				}
			}
			for i := range x.Args {
				i := i
				if id, ok := x.Args[i].(*ast.Ident); ok && isOpType(id.Name) {
					old := id.Name
					for _, t := range []string{"Exempt", "Redactable", "FieldName", "Namespace"} {
						t := t
						if t == old {
							continue
						}
						add(id.Pos(), "optype", render(fset, x), t, func() { id.Name = t }, func() { id.Name = old })
					}
				}
			}
		case *ast.CompositeLit:
			for i := range x.Elts {
				if bl, ok := x.Elts[i].(*ast.BasicLit); ok && bl.Kind == token.STRING {
					old := bl.Value
					nv := strconv.Quote(mustUnquote(old) + "_")
					add(bl.Pos(), "str-key", "list element "+old, nv, func() { bl.Value = nv }, func() { bl.Value = old })
				}
			}
		case *ast.BasicLit:
			if x.Kind == token.INT {
				old := x.Value
				if v, err := strconv.ParseInt(old, 0, 64); err == nil {
					nv := strconv.FormatInt(v+1, 10)
					add(x.Pos(), "int-lit", old, nv, func() { x.Value = nv }, func() { x.Value = old })
					if v > 0 {
						nv2 := strconv.FormatInt(v-1, 10)
						add(x.Pos(), "int-lit", old, nv2, func() { x.Value = nv2 }, func() { x.Value = old })
					}
				}
			}
		case *ast.Ident:
			if x.Name == "true" || x.Name == "false" {
				old := x.Name
				nv := "true"
				if old == "true" {
					nv = "false"
				}
				add(x.Pos(), "bool-lit", old, nv, func() { x.Name = nv }, func() { x.Name = old })
			}
		}
		return true
	})
	return sites
}

func mustUnquote(s string) string {
	u, err := strconv.Unquote(s)
	if err != nil {
		return s
	}
	return u
}

func main() {
	root := flag.String("root", "/repo", "repository root")
	flag.Parse()
	files, _ := filepath.Glob(filepath.Join(*root, "src", "*.go"))
	sort.Strings(files)
	cmd := flag.Arg(0)
	enc := json.NewEncoder(os.Stdout)
	for _, path := range files {
		if strings.HasSuffix(path, "_test.go") {
			continue
		}
		rel, _ := filepath.Rel(*root, path)
		fset := token.NewFileSet()
		f, err := parser.ParseFile(fset, path, nil, parser.ParseComments)
		if err != nil {
			fmt.Fprintln(os.Stderr, err)
			os.Exit(2)
		}
		sites := collect(fset, f, rel)
		switch cmd {
		case "list":
			for _, s := range sites {
				enc.Encode(s.m)
			}
		case "apply":
			for _, s := range sites {
				if s.m.ID == flag.Arg(1) {
					s.apply()
					var b bytes.Buffer
					if err := printer.Fprint(&b, fset, f); err != nil {
						fmt.Fprintln(os.Stderr, err)
						os.Exit(2)
					}
					src := b.String()
					if s.m.Kind == "not-del" {
						src = strings.Replace(src, "+__id(", "(", 1)
					}
					if err := os.WriteFile(path, []byte(src), 0644); err != nil {
						fmt.Fprintln(os.Stderr, err)
						os.Exit(2)
					}
					enc.Encode(s.m)
					return
				}
			}
		}
	}
	if cmd == "apply" {
		fmt.Fprintln(os.Stderr, "no such mutant:", flag.Arg(1))
		os.Exit(3)
	}
}
