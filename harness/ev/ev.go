// Package ev: verdict bookkeeping shared by all checks — evidence files,
// replay files, VIOLATION / KNOWN-FINDING / INCONCLUSIVE lines and the
// committed known-findings file (never written at run time).
package ev

import (
	"bufio"
	"crypto/sha256"
	"encoding/hex"
	"encoding/json"
	"fmt"
	"os"
	"path/filepath"
	"regexp"
	"sort"
	"strconv"
	"strings"
	"sync"
	"time"
)

type finding struct {
	prop string
	re   *regexp.Regexp
	text string
	hits int
}

type Violation struct {
	Sig    string
	What   string
	Replay string
}

type Check struct {
	ID    string
	Tier  string
	Seed  int64
	Level string
	Verif string
	start time.Time

	mu          sync.Mutex
	evals       int
	distinct    map[string]struct{}
	samples     []any
	extra       map[string]any
	counters    map[string]int
	assumptions []string
	findings    []*finding
	violSigs    map[string]*Violation
	violCount   int
	knownCount  int
	inconcl     []string
}

func Tier() string {
	if t := os.Getenv("VERIF_TIER"); t == "thorough" {
		return t
	}
	return "quick"
}

func Seed() int64 {
	if s := os.Getenv("VERIF_SEED"); s != "" {
		if v, err := strconv.ParseInt(s, 10, 64); err == nil {
			return v
		}
	}
	return 1
}

func New(id, tier, level, verifDir string, seed int64) *Check {
	c := &Check{ID: id, Tier: tier, Seed: seed, Level: level, Verif: verifDir, start: time.Now(),
		distinct: map[string]struct{}{}, extra: map[string]any{}, counters: map[string]int{}, violSigs: map[string]*Violation{}}
	c.loadFindings()
	return c
}

func (c *Check) loadFindings() {
	f, err := os.Open(filepath.Join(c.Verif, "known_findings.txt"))
	if err != nil {
		return
	}
	defer f.Close()
	sc := bufio.NewScanner(f)
	sc.Buffer(make([]byte, 1<<20), 1<<20)
	for sc.Scan() {
		ln := strings.TrimSpace(sc.Text())
		if !strings.HasPrefix(ln, "finding:") {
			continue // comments and "fixed:" lines suppress nothing
		}
		rest := strings.TrimSpace(strings.TrimPrefix(ln, "finding:"))
		fs := strings.SplitN(rest, " ", 3)
		if len(fs) < 3 || !strings.HasPrefix(fs[0], "property=") || !strings.HasPrefix(fs[1], "sig=") {
			continue
		}
		if strings.TrimPrefix(fs[0], "property=") != c.ID {
			continue
		}
		re, err := regexp.Compile("^(?:" + strings.TrimPrefix(fs[1], "sig=") + ")$")
		if err != nil {
			continue
		}
		c.findings = append(c.findings, &finding{prop: c.ID, re: re, text: fs[2]})
	}
}

// Eval counts one evaluated case; key identifies it for distinctness ("" =
// trivial, not counted as distinct non-trivial).
func (c *Check) Eval(key string) {
	c.mu.Lock()
	c.evals++
	if key != "" {
		h := sha256.Sum256([]byte(key))
		c.distinct[string(h[:12])] = struct{}{}
	}
	c.mu.Unlock()
}

func (c *Check) Count(name string, n int) {
	c.mu.Lock()
	c.counters[name] += n
	c.mu.Unlock()
}

func (c *Check) Counter(name string) int {
	c.mu.Lock()
	defer c.mu.Unlock()
	return c.counters[name]
}

func (c *Check) Sample(v any) {
	c.mu.Lock()
	if len(c.samples) < 6 {
		c.samples = append(c.samples, v)
	}
	c.mu.Unlock()
}

func (c *Check) Set(k string, v any) {
	c.mu.Lock()
	c.extra[k] = v
	c.mu.Unlock()
}

func (c *Check) Assume(s string) { c.assumptions = append(c.assumptions, s) }

// Inconclusive records a reason; the run will exit 2 without a VIOLATION line
// unless a real violation was also seen.
func (c *Check) Inconclusive(reason string) {
	c.mu.Lock()
	c.inconcl = append(c.inconcl, reason)
	c.mu.Unlock()
}

// Violation records a refuting observation. sig identifies the defect (kind
// and abstracted position); replay is any JSON-serialisable description that
// lets `verif replay` re-run the case. Returns true if it is a new,
// not-known violation.
func (c *Check) Violation(sig, what string, replay map[string]any) bool {
	c.mu.Lock()
	defer c.mu.Unlock()
	for _, f := range c.findings {
		if f.re.MatchString(sig) {
			f.hits++
			c.knownCount++
			return false
		}
	}
	c.violCount++
	if _, ok := c.violSigs[sig]; ok {
		return false
	}
	v := &Violation{Sig: sig, What: what}
	if len(c.violSigs) < 40 {
		if replay == nil {
			replay = map[string]any{}
		}
		replay["property"] = c.ID
		replay["sig"] = sig
		replay["what"] = what
		replay["seed"] = c.Seed
		replay["tier"] = c.Tier
		b, _ := marshal(replay)
		h := sha256.Sum256(b)
		dir := filepath.Join(c.Verif, "replay", c.ID)
		os.MkdirAll(dir, 0o755)
		p := filepath.Join(dir, hex.EncodeToString(h[:6])+".json")
		os.WriteFile(p, b, 0o644)
		v.Replay = p
	}
	c.violSigs[sig] = v
	return true
}

func (c *Check) Violations() int {
	c.mu.Lock()
	defer c.mu.Unlock()
	return len(c.violSigs)
}

func marshal(v any) ([]byte, error) {
	var sb strings.Builder
	enc := json.NewEncoder(&sb)
	enc.SetEscapeHTML(false)
	enc.SetIndent("", " ")
	err := enc.Encode(v)
	return []byte(sb.String()), err
}

// Finish writes the evidence file, prints verdict lines and returns the exit
// status: 0 held, 1 violation, 2 inconclusive.
func (c *Check) Finish(rule string) int {
	c.mu.Lock()
	defer c.mu.Unlock()
	cov := map[string]any{
		"evaluations":         c.evals,
		"distinct_nontrivial": len(c.distinct),
		"rule":                rule,
		"samples":             c.samples,
	}
	for k, v := range c.extra {
		cov[k] = v
	}
	if len(c.counters) > 0 {
		cov["observations"] = c.counters
	}
	known := []string{}
	for _, f := range c.findings {
		if f.hits > 0 {
			known = append(known, fmt.Sprintf("%s (seen %d times)", f.text, f.hits))
		}
	}
	cov["known_findings_seen"] = known
	if len(c.inconcl) > 0 {
		cov["inconclusive"] = c.inconcl
	}
	if c.samples == nil {
		cov["samples"] = []any{}
	}
	evd := map[string]any{
		"property_id": c.ID,
		"tier":        c.Tier,
		"seed":        c.Seed,
		"level":       c.Level,
		"coverage":    cov,
		"assumptions": c.assumptions,
		"wall_s":      float64(int(time.Since(c.start).Seconds()*10)) / 10,
		"violations":  len(c.violSigs),
	}
	if c.assumptions == nil {
		evd["assumptions"] = []string{}
	}
	b, _ := marshal(evd)
	dir := filepath.Join(c.Verif, "evidence")
	os.MkdirAll(dir, 0o755)
	os.WriteFile(filepath.Join(dir, c.ID+".json"), b, 0o644)

	for _, f := range c.findings {
		if f.hits > 0 {
			fmt.Printf("KNOWN-FINDING: property=%s %s\n", c.ID, f.text)
		}
	}
	sigs := make([]string, 0, len(c.violSigs))
	for s := range c.violSigs {
		sigs = append(sigs, s)
	}
	sort.Strings(sigs)
	printed := 0
	for _, s := range sigs {
		v := c.violSigs[s]
		if v.Replay == "" {
			continue
		}
		if printed++; printed > 25 {
			break
		}
		fmt.Printf("VIOLATION property=%s replay=%s\n    sig=%s\n    %s\n", c.ID, v.Replay, v.Sig, v.What)
	}
	if len(sigs) > 25 {
		fmt.Printf("(%d distinct violation signatures in total; the first 25 with replay files are listed)\n", len(sigs))
	}
	fmt.Printf("%s tier=%s seed=%d evaluations=%d distinct=%d violations=%d(sigs %d) known=%d wall=%.1fs\n",
		c.ID, c.Tier, c.Seed, c.evals, len(c.distinct), c.violCount, len(c.violSigs), c.knownCount, time.Since(c.start).Seconds())
	if len(c.violSigs) > 0 {
		return 1
	}
	if len(c.inconcl) > 0 {
		for _, r := range c.inconcl {
			fmt.Printf("INCONCLUSIVE property=%s reason=%s\n", c.ID, r)
		}
		return 2
	}
	return 0
}

// Evals returns the number of evaluated cases so far.
func (c *Check) Evals() int {
	c.mu.Lock()
	defer c.mu.Unlock()
	return c.evals
}
