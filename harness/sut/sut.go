// Package sut builds the system under test from /repo's current working tree
// (never from a cache of an earlier tree) and runs it. Two channels:
//
//	A — the real CLI binary (go build -race -cover ./src)
//	B — an in-process agent: /verif/harness/agent/agent_test.go overlaid into
//	    /repo/src as a `//go:build verif` test file and built with go test -c.
//
// Neither modifies /repo: go.mod/go.sum are copied to scratch and passed with
// -modfile, because GOFLAGS=-mod=mod would otherwise rewrite /repo/go.mod.
package sut

import (
	"bytes"
	"context"
	"encoding/json"
	"errors"
	"fmt"
	"io"
	"os"
	"os/exec"
	"path/filepath"
	"strings"
	"sync"
	"sync/atomic"
	"syscall"
	"time"
)

type SUT struct {
	Repo     string // /repo or $VERIF_REPO
	Verif    string // /verif
	Scratch  string // removed by Close
	Bin      string
	AgentBin string
	CoverDir string
	RaceLog  string
	seq      atomic.Int64
	agentMu  sync.Mutex
}

func RepoDir() string {
	if d := os.Getenv("VERIF_REPO"); d != "" {
		return d
	}
	return "/repo"
}

func VerifDir() string {
	if d := os.Getenv("VERIF_DIR"); d != "" {
		return d
	}
	return "/verif"
}

func goEnv() []string {
	env := os.Environ()
	out := env[:0:0]
	for _, e := range env {
		if strings.HasPrefix(e, "GOFLAGS=") || strings.HasPrefix(e, "GOPROXY=") ||
			strings.HasPrefix(e, "GOTOOLCHAIN=") || strings.HasPrefix(e, "GOSUMDB=") || strings.HasPrefix(e, "GOCOVERDIR=") {
			continue
		}
		out = append(out, e)
	}
	return append(out, "GOFLAGS=-mod=mod", "GOPROXY=off", "GOTOOLCHAIN=auto")
}

// New creates the scratch directory and builds the CLI.
func New() (*SUT, error) {
	scratch, err := os.MkdirTemp("", "verif-sut-")
	if err != nil {
		return nil, err
	}
	s := &SUT{Repo: RepoDir(), Verif: VerifDir(), Scratch: scratch}
	s.CoverDir = filepath.Join(scratch, "cover")
	s.RaceLog = filepath.Join(scratch, "race", "log")
	os.MkdirAll(s.CoverDir, 0o755)
	os.MkdirAll(filepath.Dir(s.RaceLog), 0o755)
	for _, f := range []string{"go.mod", "go.sum"} {
		b, err := os.ReadFile(filepath.Join(s.Repo, f))
		if err != nil {
			s.Close()
			return nil, err
		}
		if err := os.WriteFile(filepath.Join(scratch, f), b, 0o644); err != nil {
			s.Close()
			return nil, err
		}
	}
	s.Bin = filepath.Join(scratch, "anonymongo")
	cmd := exec.Command("go", "build", "-race", "-cover", "-modfile="+filepath.Join(scratch, "go.mod"), "-o", s.Bin, "./src")
	cmd.Dir = s.Repo
	cmd.Env = goEnv()
	if out, err := cmd.CombinedOutput(); err != nil {
		s.Close()
		return nil, fmt.Errorf("building CLI from %s failed: %v\n%s", s.Repo, err, out)
	}
	return s, nil
}

// BuildAgent builds the overlaid in-process agent (lazily, once).
func (s *SUT) BuildAgent() error {
	s.agentMu.Lock()
	defer s.agentMu.Unlock()
	if s.AgentBin != "" {
		return nil
	}
	src := filepath.Join(s.Verif, "harness", "agent", "agent_test.go")
	ov := map[string]any{"Replace": map[string]string{
		filepath.Join(s.Repo, "src", "zz_verif_agent_test.go"): src,
	}}
	b, _ := json.Marshal(ov)
	ovf := filepath.Join(s.Scratch, "overlay.json")
	if err := os.WriteFile(ovf, b, 0o644); err != nil {
		return err
	}
	bin := filepath.Join(s.Scratch, "agent.test")
	cmd := exec.Command("go", "test", "-c", "-race", "-cover", "-tags", "verif", "-vet=off",
		"-overlay", ovf, "-modfile="+filepath.Join(s.Scratch, "go.mod"), "-o", bin, "./src")
	cmd.Dir = s.Repo
	cmd.Env = goEnv()
	if out, err := cmd.CombinedOutput(); err != nil {
		return fmt.Errorf("building agent from %s failed: %v\n%s", s.Repo, err, out)
	}
	s.AgentBin = bin
	return nil
}

func (s *SUT) Close() {
	if s != nil && s.Scratch != "" && os.Getenv("VERIF_KEEP_SCRATCH") == "" {
		os.RemoveAll(s.Scratch)
	}
}

// TempDir returns a fresh private directory under the scratch area.
func (s *SUT) TempDir(prefix string) string {
	d := filepath.Join(s.Scratch, fmt.Sprintf("%s-%d", prefix, s.seq.Add(1)))
	os.MkdirAll(d, 0o755)
	return d
}

type Result struct {
	Stdout, Stderr []byte
	Exit           int // -1 when killed by a signal
	Signal         string
	TimedOut       bool // watchdog fired: inconclusive, never a violation
}

type Run struct {
	Args       []string
	Stdin      []byte        // nil => /dev/null ("no piped input"); non-nil => a real pipe
	StdinFile  string        // if set, stdin is this file opened read-only (not a char device => "piped")
	StdinDelay time.Duration // with Stdin: the pipe delivers its first byte only after this delay (a slow producer)
	StderrNull bool          // stderr is /dev/null: a character device, as a terminal is (Result.Stderr stays empty)
	Env        []string      // extra env (KEY=VAL)
	Dir        string
	Timeout    time.Duration
	StdoutFile string   // if set, stdout goes to this path (opened O_WRONLY|O_CREATE|O_TRUNC, or as is for devices)
	Rlimit     int64    // RLIMIT_FSIZE in bytes through prlimit(1); 0 = none
	Wrap       []string // command prefix (e.g. strace ...)
	// StdoutPipeClose >= 0: stdout is a pipe whose reader takes exactly this many
	// bytes and then closes its end (0: closed before the child starts writing).
	// The bytes read are returned in Result.Stdout.
	StdoutPipeClose int
	PipeClose       bool
}

func (s *SUT) baseEnv(dir string) []string {
	tmp := filepath.Join(dir, "tmp")
	os.MkdirAll(tmp, 0o755)
	return []string{
		"PATH=/usr/local/bin:/usr/bin:/bin",
		"HOME=" + dir,
		"TMPDIR=" + tmp,
		"GOCOVERDIR=" + s.CoverDir,
		"GORACE=halt_on_error=0 atexit_sleep_ms=0 log_path=" + s.RaceLog,
		"NO_COLOR=1",
	}
}

// CLI runs the real binary.
func (s *SUT) CLI(r Run) Result { return s.exec(s.Bin, r) }

func (s *SUT) exec(bin string, r Run) Result {
	if r.Dir == "" {
		r.Dir = s.TempDir("run")
	}
	if r.Timeout == 0 {
		r.Timeout = 120 * time.Second
	}
	ctx, cancel := context.WithTimeout(context.Background(), r.Timeout)
	defer cancel()
	argv := append([]string{}, r.Wrap...)
	if r.Rlimit > 0 {
		argv = append(argv, "prlimit", fmt.Sprintf("--fsize=%d", r.Rlimit), "--")
	}
	argv = append(argv, bin)
	argv = append(argv, r.Args...)
	cmd := exec.CommandContext(ctx, argv[0], argv[1:]...)
	cmd.Dir = r.Dir
	cmd.Env = append(s.baseEnv(r.Dir), r.Env...)
	cmd.WaitDelay = 5 * time.Second
	var so, se bytes.Buffer
	cmd.Stderr = &se
	if r.StderrNull && !r.PipeClose {
		if dn, err := os.OpenFile(os.DevNull, os.O_WRONLY, 0); err == nil {
			defer dn.Close()
			cmd.Stderr = dn
		}
	}
	var pipeDone chan []byte
	if r.PipeClose {
		pr, pw, err := os.Pipe()
		if err != nil {
			return Result{Exit: -2, Stderr: []byte(err.Error())}
		}
		cmd.Stdout = pw
		pipeDone = make(chan []byte, 1)
		n := r.StdoutPipeClose
		if n == 0 {
			pr.Close()
			pipeDone <- nil
		} else {
			go func() {
				buf := make([]byte, n)
				got, _ := io.ReadFull(pr, buf)
				pr.Close()
				pipeDone <- buf[:got]
			}()
		}
		defer pw.Close()
		cmd.Stderr = &se
		dn, _ := os.Open(os.DevNull)
		defer dn.Close()
		cmd.Stdin = dn
		if r.StdinFile != "" {
			f, err := os.Open(r.StdinFile)
			if err == nil {
				defer f.Close()
				cmd.Stdin = f
			}
		}
		err = cmd.Start()
		pw.Close()
		if err == nil {
			err = cmd.Wait()
		}
		res := Result{Stdout: <-pipeDone, Stderr: se.Bytes()}
		if ctx.Err() == context.DeadlineExceeded {
			res.TimedOut = true
		}
		var ee *exec.ExitError
		switch {
		case err == nil:
		case errors.As(err, &ee):
			if ws, ok := ee.Sys().(syscall.WaitStatus); ok && ws.Signaled() {
				res.Exit = -1
				res.Signal = ws.Signal().String()
			} else {
				res.Exit = ee.ExitCode()
			}
		default:
			res.Exit = -2
		}
		return res
	}
	if r.StdoutFile != "" {
		f, err := os.OpenFile(r.StdoutFile, os.O_WRONLY|os.O_CREATE|os.O_TRUNC, 0o644)
		if err != nil {
			return Result{Exit: -2, Stderr: []byte(err.Error())}
		}
		defer f.Close()
		cmd.Stdout = f
	} else {
		cmd.Stdout = &so
	}
	switch {
	case r.StdinFile != "":
		f, err := os.Open(r.StdinFile)
		if err != nil {
			return Result{Exit: -2, Stderr: []byte(err.Error())}
		}
		defer f.Close()
		cmd.Stdin = f
	case r.Stdin != nil:
		cmd.Stdin = bytes.NewReader(r.Stdin) // exec makes a real pipe for non-*os.File readers
		if r.StdinDelay > 0 {
			cmd.Stdin = &lateReader{delay: r.StdinDelay, r: bytes.NewReader(r.Stdin)}
		}
	default:
		dn, _ := os.Open(os.DevNull)
		defer dn.Close()
		cmd.Stdin = dn
	}
	err := cmd.Run()
	res := Result{Stdout: so.Bytes(), Stderr: se.Bytes()}
	if ctx.Err() == context.DeadlineExceeded {
		res.TimedOut = true
	}
	var ee *exec.ExitError
	switch {
	case err == nil:
	case errors.As(err, &ee):
		if ws, ok := ee.Sys().(syscall.WaitStatus); ok && ws.Signaled() {
			res.Exit = -1
			res.Signal = ws.Signal().String()
		} else {
			res.Exit = ee.ExitCode()
		}
	default:
		res.Exit = -2
		res.Stderr = append(res.Stderr, []byte("\nexec: "+err.Error())...)
	}
	return res
}

// RedactFile writes input to a file in a private directory and runs
// `redact <flags> <file>` with stdin=/dev/null, output on stdout.
func (s *SUT) RedactFile(flags []string, input []byte) Result {
	dir := s.TempDir("rf")
	in := filepath.Join(dir, "in.log")
	os.WriteFile(in, input, 0o644)
	args := append([]string{"redact"}, flags...)
	args = append(args, in)
	res := s.CLI(Run{Args: args, Dir: dir})
	os.RemoveAll(dir)
	return res
}

// Crashed reports whether stderr shows a Go runtime crash.
func Crashed(stderr []byte) bool {
	return bytes.Contains(stderr, []byte("panic:")) || bytes.Contains(stderr, []byte("fatal error:")) ||
		bytes.Contains(stderr, []byte("goroutine ")) || bytes.Contains(stderr, []byte("WARNING: DATA RACE"))
}

// RaceReports counts race reports written by any child so far.
func (s *SUT) RaceReports() int {
	n := 0
	files, _ := filepath.Glob(s.RaceLog + ".*")
	for _, f := range files {
		b, _ := os.ReadFile(f)
		n += bytes.Count(b, []byte("WARNING: DATA RACE"))
	}
	return n
}

// RacePairs returns the distinct (accessing function, previous-access function) pairs of the race
// reports written so far, line numbers stripped, with one full report each.
func (s *SUT) RacePairs() map[string]string {
	out := map[string]string{}
	files, _ := filepath.Glob(s.RaceLog + ".*")
	for _, f := range files {
		b, _ := os.ReadFile(f)
		for _, blk := range strings.Split(string(b), "WARNING: DATA RACE")[1:] {
			var fns []string
			lines := strings.Split(blk, "\n")
			for i, ln := range lines {
				t := strings.TrimSpace(ln)
				if (strings.HasPrefix(t, "Write at") || strings.HasPrefix(t, "Read at") || strings.HasPrefix(t, "Previous write at") || strings.HasPrefix(t, "Previous read at")) && i+1 < len(lines) {
					fn := strings.TrimSpace(lines[i+1])
					if j := strings.Index(fn, "("); j > 0 {
						fn = fn[:j]
					}
					fns = append(fns, fn)
				}
			}
			key := strings.Join(fns, " / ")
			if _, seen := out[key]; !seen {
				if len(blk) > 1500 {
					blk = blk[:1500]
				}
				out[key] = "WARNING: DATA RACE" + blk
			}
		}
	}
	return out
}

// ---------------------------------------------------------------- agent

// AgentCmd is one command for the in-process agent; see agent/agent_test.go.
type AgentCmd map[string]any

type AgentRec map[string]any

// Agent runs one agent process over a script of commands and returns the
// `end` records in order. If the process dies, the records so far are
// returned together with crashedAt = index of the command that had begun.
func (s *SUT) Agent(cmds []AgentCmd, env []string, timeout time.Duration) (recs []AgentRec, crashedAt int, res Result, err error) {
	if err := s.BuildAgent(); err != nil {
		return nil, -1, Result{}, err
	}
	dir := s.TempDir("agent")
	defer os.RemoveAll(dir)
	script := filepath.Join(dir, "script.jsonl")
	outp := filepath.Join(dir, "out.jsonl")
	var sb bytes.Buffer
	enc := json.NewEncoder(&sb)
	enc.SetEscapeHTML(false)
	for _, c := range cmds {
		enc.Encode(c)
	}
	os.WriteFile(script, sb.Bytes(), 0o644)
	if timeout == 0 {
		timeout = 10 * time.Minute
	}
	res = s.exec(s.AgentBin, Run{
		Args:    []string{"-test.run", "^TestVerifAgent$", "-test.timeout", "0", "-test.count", "1"},
		Dir:     dir,
		Env:     append([]string{"VERIF_AGENT_SCRIPT=" + script, "VERIF_AGENT_OUT=" + outp}, env...),
		Timeout: timeout,
	})
	b, _ := os.ReadFile(outp)
	crashedAt = -1
	begun := -1
	dec := json.NewDecoder(bytes.NewReader(b))
	dec.UseNumber()
	for dec.More() {
		var r AgentRec
		if e := dec.Decode(&r); e != nil {
			break
		}
		switch r["ev"] {
		case "begin":
			n, _ := r["i"].(json.Number).Int64()
			begun = int(n)
		case "end":
			recs = append(recs, r)
			begun = -1
		}
	}
	if begun >= 0 {
		crashedAt = begun
	}
	if len(recs) != len(cmds) && crashedAt < 0 && !res.TimedOut {
		err = fmt.Errorf("agent returned %d records for %d commands (exit %d): %s", len(recs), len(cmds), res.Exit, tail(res.Stderr, 2000))
	}
	return
}

func tail(b []byte, n int) string {
	if len(b) > n {
		b = b[len(b)-n:]
	}
	return string(b)
}

// ---------------------------------------------------------------- coverage

// CoverPercent returns statement coverage per function for the given file
// suffixes, measured from every child run so far (best effort; "" on error).
func (s *SUT) CoverFuncs() map[string]float64 {
	prof := filepath.Join(s.Scratch, "cover.txt")
	cmd := exec.Command("go", "tool", "covdata", "textfmt", "-i="+s.CoverDir, "-o="+prof)
	cmd.Dir = s.Repo
	cmd.Env = goEnv()
	if err := cmd.Run(); err != nil {
		return nil
	}
	b, err := os.ReadFile(prof)
	if err != nil {
		return nil
	}
	// per-file statement coverage (function attribution needs source parsing;
	// file granularity is enough for the evidence).
	type acc struct{ tot, hit int }
	per := map[string]*acc{}
	seen := map[string]int{}
	for _, ln := range strings.Split(string(b), "\n") {
		if ln == "" || strings.HasPrefix(ln, "mode:") {
			continue
		}
		// file:sl.sc,el.ec nstmt count
		f := strings.Fields(ln)
		if len(f) != 3 {
			continue
		}
		var n, c int
		fmt.Sscan(f[1], &n)
		fmt.Sscan(f[2], &c)
		key := f[0]
		file := key[:strings.LastIndex(key, ":")]
		file = filepath.Base(file)
		a := per[file]
		if a == nil {
			a = &acc{}
			per[file] = a
		}
		if prev, ok := seen[key]; ok {
			if prev == 0 && c > 0 {
				a.hit += n
				seen[key] = c
			}
			continue
		}
		seen[key] = c
		a.tot += n
		if c > 0 {
			a.hit += n
		}
	}
	out := map[string]float64{}
	for f, a := range per {
		if a.tot > 0 && !strings.HasSuffix(f, "_test.go") {
			out[f] = float64(int(1000*float64(a.hit)/float64(a.tot))) / 10
		}
	}
	return out
}

// lateReader delivers nothing for a while: the child sees an open pipe whose first byte arrives late.
type lateReader struct {
	delay time.Duration
	r     io.Reader
	slept bool
}

func (l *lateReader) Read(p []byte) (int, error) {
	if !l.slept {
		l.slept = true
		time.Sleep(l.delay)
	}
	return l.r.Read(p)
}
